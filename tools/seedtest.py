#!/usr/bin/env python3
"""
Evaluate one seeded change against the checks.

    tools/seedtest.py <dir with patch.diff, demo.py, meta.json> [--tier quick|thorough] [--props C01,C02] [--all]

1. copies /repo's working tree to a scratch directory outside /repo and /verif, applies patch.diff;
2. confirms: the 52 repository tests pass with the change; the demonstration fails with it and passes
   without it;
3. runs the check(s) of the property it breaks (or --props / --all) with VERIF_REPO=<scratch>, without touching
   evidence/;
4. removes the scratch copy and prints one JSON line with the outcome.
"""
import json
import os
import shutil
import subprocess
import sys
import tempfile

VERIF = os.path.dirname(os.path.dirname(os.path.abspath(__file__)))
PY = "/venv/bin/python"
ALL = [f"C{i:02d}" for i in range(1, 21)]


def run(cmd, cwd=None, env=None, timeout=3600):
    r = subprocess.run(cmd, cwd=cwd, env=env, stdout=subprocess.PIPE, stderr=subprocess.STDOUT, text=True, timeout=timeout)
    return r.returncode, r.stdout


def main():
    args = sys.argv[1:]
    d = os.path.abspath(args[0])
    tier = "quick"
    props = None
    if "--tier" in args:
        tier = args[args.index("--tier") + 1]
    meta = json.load(open(os.path.join(d, "meta.json")))
    if "--props" in args:
        props = args[args.index("--props") + 1].split(",")
    elif "--all" in args:
        props = ALL
    else:
        props = [meta["property"]]
    skip_confirm = "--no-confirm" in args
    scratch = tempfile.mkdtemp(prefix="vf-scratch-", dir="/var/tmp")
    out = {"dir": d, "property": meta["property"], "tier": tier}
    try:
        wt = os.path.join(scratch, "repo")
        shutil.copytree("/repo", wt, ignore=shutil.ignore_patterns(".git", "__pycache__", "*.egg-info", "docs"))
        clean = os.path.join(scratch, "clean")
        if not skip_confirm:
            shutil.copytree(wt, clean)
        rc, o = run(["patch", "-p1", "-i", os.path.join(d, "patch.diff")], cwd=wt)
        out["patch_applies"] = rc == 0
        if rc != 0:
            out["error"] = o[-500:]
            print(json.dumps(out))
            return 2
        env = dict(os.environ)
        env["NUMBA_CACHE_DIR"] = os.path.join(scratch, "nb")
        env["PYTHONPATH"] = wt          # the demo lives outside the tree: make `import corankco` resolve to the copy
        demo = os.path.join(d, "demo.py")
        if not skip_confirm:
            rc, o = run([PY, "-m", "pytest", "-q", "-p", "no:cacheprovider", "-x", "tests"], cwd=wt, env=env)
            out["tests_pass_with_change"] = rc == 0
            out["tests_tail"] = o.strip().splitlines()[-1] if o.strip() else ""
            rc, o = run([PY, demo], cwd=wt, env=env, timeout=900)
            out["demo_fails_with_change"] = rc != 0
            env2 = dict(env)
            env2["NUMBA_CACHE_DIR"] = os.path.join(scratch, "nb2")
            env2["PYTHONPATH"] = clean
            rc, o = run([PY, demo], cwd=clean, env=env2, timeout=900)
            out["demo_passes_without"] = rc == 0
        results = {}
        for p in props:
            env3 = dict(os.environ)
            env3["VERIF_REPO"] = wt
            env3["VERIF_NO_EVIDENCE"] = "1"
            rc, o = run([os.path.join(VERIF, "check"), p, tier], cwd=VERIF, env=env3, timeout=7200)
            sigs = sorted({ln.split("signature=")[1].split(" ::")[0] for ln in o.splitlines() if "signature=" in ln})
            reported = any(ln.startswith(f"VIOLATION property={p} ") for ln in o.splitlines())
            if rc == 1 and not reported:
                rc = 3      # exit 1 without a VIOLATION line is a crashed check, not a detection
            results[p] = {"exit": rc, "signatures": sigs[:8], "last": o.strip().splitlines()[-1][:300] if o.strip() else ""}
        out["checks"] = results
        out["caught_by"] = [p for p, r in results.items() if r["exit"] == 1]
    finally:
        shutil.rmtree(scratch, ignore_errors=True)
        # the numba cache of the scratch tree is keyed by its source hash: drop it
        nb = os.path.join(VERIF, ".work", "numba")
    print(json.dumps(out))
    return 0


if __name__ == "__main__":
    sys.exit(main())
