#!/usr/bin/env python3
"""Regenerates /verif/MANIFEST.json from the monitor modules present under vf/monitors
(kept as a generated file so that it is valid at all times)."""
import importlib
import json
import os
import sys

HERE = os.path.dirname(os.path.abspath(__file__))
VERIF = os.path.dirname(HERE)
sys.path.insert(0, VERIF)

props = [json.loads(l) for l in open(os.path.join(VERIF, "properties.jsonl"))]
checks, na = [], []
for p in props:
    pid = p["id"]
    path = os.path.join(VERIF, "vf", "monitors", pid.lower() + ".py")
    if not os.path.exists(path):
        na.append({"property_id": pid, "reason": "check not built yet in this round (runtime monitoring applies; "
                   "see DESIGN.md section 3)"})
        continue
    mod = importlib.import_module("vf.monitors." + pid.lower())
    checks.append({
        "property_id": pid,
        "quick_cmd": f"./check {pid} quick",
        "thorough_cmd": f"./check {pid} thorough",
        "evidence_file": f"/verif/evidence/{pid}.json",
        "replay_cmd_template": f"./check {pid} --replay {{path}}",
        "engine": "vf",
        "level_claimed": {
            "category": "exploration",
            "text": getattr(mod, "LEVEL_TEXT", "held on the executions observed: the real code runs under "
                            "contracts / recorders judged by an independent exact reference model over seeded "
                            "hostile workloads; reach conditions measured per run"),
            "design_ref": f"DESIGN.md section 3, {pid}",
        },
        "level_note": "; ".join(getattr(mod, "ASSUMPTIONS", [])) or "reference model vf/ref.py",
        "technique": getattr(mod, "TECHNIQUE", "runtime monitoring: contracts and recorders on the real functions, "
                             "judged online against an executable reference model"),
    })

manifest = {
    "version": 1,
    "setup_cmd": "/venv/bin/python -m pip install -q --no-index --find-links /opt/veriftools/wheels "
                 "--target /verif/.deps icontract jsonschema",
    "hooks": {
        "guard": "CORANKCO_VERIF",
        "enable": "no source hook exists: monitors are attached from the harness (icontract decorators and "
                  "recorders rebound onto the real classes inside the check's child processes, which run with "
                  "CORANKCO_VERIF=1 and import corankco from /repo's working tree)",
        "baseline_off_cmd": "cd /repo && /venv/bin/python -m pytest -ra -q -p no:cacheprovider --timeout=900 tests",
        "source_commits": [],
        "add_only": True,
    },
    "engines": [{"name": "vf", "path": "/verif/vf", "serves_properties": [c["property_id"] for c in checks],
                 "kind_free_text": "runtime monitoring harness: sharded child processes running the real library "
                                   "under contracts, recorders, invariants and instrumented runtimes"}],
    "checks": checks,
    "not_applicable": na,
    "notes": "Exit codes of every check: 0 held on what was observed, 1 violation (VIOLATION line + replay file), "
             "2 inconclusive (a gating reach condition failed or a watchdog fired), 3 broken check. "
             "VERIF_SEED selects the workload seed; VERIF_REPO (default /repo) selects the tree under test.",
}
with open(os.path.join(VERIF, "MANIFEST.json"), "w") as f:
    json.dump(manifest, f, indent=1)
print(f"{len(checks)} checks, {len(na)} not yet claimed")
