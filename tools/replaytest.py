#!/usr/bin/env python3
"""for one seeded change per property: run the quick check on the patched scratch copy, take the first witness it wrote and
re-execute it with `./check <prop> --replay <witness>` against the patched copy (must reproduce: exit 1) and against
/repo (must not: exit 0).  usage: tools/replaytest.py [suffix letter, default a]"""
import glob, json, os, re, shutil, subprocess, sys, tempfile
VERIF = os.path.dirname(os.path.dirname(os.path.abspath(__file__)))
suffix = sys.argv[1] if len(sys.argv) > 1 else "a"
out = {}
for i in range(1, 21):
    prop = f"C{i:02d}"
    d = os.path.join(VERIF, "seeded", prop + suffix)
    scratch = tempfile.mkdtemp(prefix="vf-replay-", dir="/var/tmp")
    try:
        wt = os.path.join(scratch, "repo")
        shutil.copytree("/repo", wt, ignore=shutil.ignore_patterns(".git", "__pycache__", "*.egg-info", "docs"))
        subprocess.run(["patch", "-p1", "-s", "-i", os.path.join(d, "patch.diff")], cwd=wt, check=True)
        env = dict(os.environ, VERIF_REPO=wt, VERIF_NO_EVIDENCE="1")
        c = subprocess.run([os.path.join(VERIF, "check"), prop, "quick"], cwd=VERIF, env=env, stdout=subprocess.PIPE,
                           stderr=subprocess.STDOUT, text=True)
        m = re.search(r"VIOLATION property=\S+ replay=(\S+)", c.stdout)
        if not m:
            out[prop] = {"error": "no VIOLATION line", "exit": c.returncode}
            print(prop, out[prop]); continue
        wit = m.group(1)
        keep = os.path.join(scratch, "witness.json")
        shutil.copy(wit, keep)
        r1 = subprocess.run([os.path.join(VERIF, "check"), prop, "--replay", keep], cwd=VERIF, env=env,
                            stdout=subprocess.PIPE, stderr=subprocess.STDOUT, text=True)
        env2 = dict(os.environ)
        env2.pop("VERIF_REPO", None)
        r2 = subprocess.run([os.path.join(VERIF, "check"), prop, "--replay", keep], cwd=VERIF, env=env2,
                            stdout=subprocess.PIPE, stderr=subprocess.STDOUT, text=True)
        out[prop] = {"replay_on_patched_tree": r1.returncode, "replay_on_repo": r2.returncode,
                     "last1": r1.stdout.strip().splitlines()[-1][:160] if r1.stdout.strip() else "",
                     "last2": r2.stdout.strip().splitlines()[-1][:160] if r2.stdout.strip() else ""}
        print(prop, out[prop], flush=True)
    finally:
        shutil.rmtree(scratch, ignore_errors=True)
bad = [p for p, v in out.items() if v.get("replay_on_patched_tree") != 1 or v.get("replay_on_repo") != 0]
print("REPLAY PROBLEMS:", bad)
