#!/usr/bin/env python3
"""negative controls: behaviour-preserving refactorings (selftest/ALL-refactor-*.diff) must keep the 52 repository tests
green AND leave every one of the 20 checks at exit 0.  usage: tools/refactortest.py [pattern]"""
import glob, json, os, shutil, subprocess, sys, tempfile
VERIF = os.path.dirname(os.path.dirname(os.path.abspath(__file__)))
PY = "/venv/bin/python"
pat = sys.argv[1] if len(sys.argv) > 1 else ""
ALL = [f"C{i:02d}" for i in range(1, 21)]
results = []
for diff in sorted(glob.glob(os.path.join(VERIF, "selftest", "ALL-refactor-*.diff"))):
    name = os.path.basename(diff)[:-5]
    if pat not in name:
        continue
    scratch = tempfile.mkdtemp(prefix="vf-refactor-", dir="/var/tmp")
    try:
        wt = os.path.join(scratch, "repo")
        shutil.copytree("/repo", wt, ignore=shutil.ignore_patterns(".git", "__pycache__", "*.egg-info", "docs"))
        r = subprocess.run(["patch", "-p1", "-i", diff], cwd=wt, stdout=subprocess.PIPE, stderr=subprocess.STDOUT, text=True)
        if r.returncode != 0:
            print(name, "PATCH DOES NOT APPLY", r.stdout[-300:])
            results.append({"refactoring": name, "error": "patch does not apply"})
            continue
        env = dict(os.environ, NUMBA_CACHE_DIR=os.path.join(scratch, "nb"), PYTHONPATH=wt)
        t = subprocess.run([PY, "-m", "pytest", "-q", "-p", "no:cacheprovider", "-x", "tests"], cwd=wt, env=env,
                           stdout=subprocess.PIPE, stderr=subprocess.STDOUT, text=True)
        exits = {}
        for p in ALL:
            env2 = dict(os.environ, VERIF_REPO=wt, VERIF_NO_EVIDENCE="1")
            c = subprocess.run([os.path.join(VERIF, "check"), p, "quick"], cwd=VERIF, env=env2, stdout=subprocess.PIPE,
                               stderr=subprocess.STDOUT, text=True)
            exits[p] = c.returncode
            if c.returncode != 0:
                print(name, p, "EXIT", c.returncode, "\n".join(c.stdout.splitlines()[-6:])[:1500])
        res = {"refactoring": name, "repository_tests_pass": t.returncode == 0, "check_exits": exits,
               "all_silent": all(v == 0 for v in exits.values())}
        results.append(res)
        print(name, "tests_pass" if t.returncode == 0 else "TESTS FAIL " + t.stdout[-300:], "all checks exit 0" if res["all_silent"] else
              "ALARMS: " + str({k: v for k, v in exits.items() if v}))
    finally:
        shutil.rmtree(scratch, ignore_errors=True)
with open(os.path.join(VERIF, "selftest", "results-refactorings.json"), "w") as f:
    json.dump(results, f, indent=1)
