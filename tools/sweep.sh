#!/bin/sh
# usage: tools/sweep.sh <tier> <seed>...   -- runs every check for each seed without touching evidence/
tier=$1; shift
cd "$(dirname "$0")/.." || exit 3
for seed in "$@"; do
  for p in C01 C02 C03 C04 C05 C06 C07 C08 C09 C10 C11 C12 C13 C14 C15 C16 C17 C18 C19 C20; do
    out=$(VERIF_SEED=$seed VERIF_NO_EVIDENCE=1 ./check $p $tier 2>&1); rc=$?
    echo "$out" | tail -1
    if [ $rc -ne 0 ]; then echo "NONZERO rc=$rc seed=$seed prop=$p"; echo "$out" | head -30; fi
  done
done
