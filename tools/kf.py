#!/usr/bin/env python3
"""append an entry to known_findings.json (never used at check run time)
usage: kf.py <open|fixed> <property> <signature> <commit|-> <witness.json|-> <what...>"""
import json, os, sys
VERIF = os.path.dirname(os.path.dirname(os.path.abspath(__file__)))
status, prop, sig, commit, wit = sys.argv[1:6]
what = " ".join(sys.argv[6:])
p = os.path.join(VERIF, "known_findings.json")
kf = json.load(open(p))
witness = None
where = None
if wit != "-":
    w = json.load(open(wit))
    witness = {k: w.get(k) for k in ("case", "observed", "expected", "mode", "hashseed", "what")}
line = (f"fixed: property={prop} {commit} {what}" if status == "fixed" else f"open: property={prop} {what}")
kf.append({"line": line, "property": prop, "status": status, "signature": sig, "commit": None if commit == "-" else commit,
           "what": what, "witness": witness})
json.dump(kf, open(p, "w"), indent=1)
print(line)
