#!/usr/bin/env python3
"""records the sha256 of every anchored source file of /repo in vf/anchors.json (run after a fix commit)"""
import hashlib, json, os
REPO = os.environ.get("VERIF_REPO", "/repo")
out = {}
for dirpath, _, files in os.walk(os.path.join(REPO, "corankco")):
    for fn in files:
        if fn.endswith(".py"):
            p = os.path.join(dirpath, fn)
            out[os.path.relpath(p, REPO)] = hashlib.sha256(open(p, "rb").read()).hexdigest()
json.dump(out, open(os.path.join(os.path.dirname(os.path.abspath(__file__)), "..", "vf", "anchors.json"), "w"), indent=1, sort_keys=True)
print(len(out), "files recorded")

# ---- baseline of entered functions (vf/anchor_baseline.json): for every property, the functions of its anchored files that
# the quick workload entered at EVERY one of the seeds below (a function entered at some seeds only is not required)
import subprocess, sys, tempfile
VERIF = os.path.join(os.path.dirname(os.path.abspath(__file__)), "..")
sys.path.insert(0, VERIF)
from vf import anchors      # noqa: E402
SEEDS = [0, 1, 2, 3, 4]
props = [a for a in sys.argv[1:] if a.startswith("C")] or [f"C{i:02d}" for i in range(1, 21)]
bpath = os.path.join(VERIF, "vf", "anchor_baseline.json")
base = json.load(open(bpath)) if os.path.exists(bpath) else {}
for prop in props:
    per_seed = []
    for seed in SEEDS:
        outdir = tempfile.mkdtemp(prefix="vf-lines-", dir="/var/tmp")
        env = dict(os.environ, VERIF_SEED=str(seed), VERIF_NO_EVIDENCE="1", VERIF_LINES_OUT=outdir)
        r = subprocess.run([os.path.join(VERIF, "check"), prop, "quick"], cwd=VERIF, env=env, stdout=subprocess.PIPE,
                           stderr=subprocess.STDOUT, text=True)
        fn = os.path.join(outdir, prop + ".json")
        if r.returncode != 0 or not os.path.exists(fn):
            print("NOT RECORDED", prop, seed, r.stdout[-300:])
            per_seed = None
            break
        lines = json.load(open(fn))
        per_seed.append({rel: set(anchors.entered_functions(os.path.join(REPO, rel), lines.get(rel, ())))
                         for rel in anchors.files_of(prop)})
        import shutil
        shutil.rmtree(outdir, ignore_errors=True)
    if per_seed:
        base[prop] = {"quick": {rel: sorted(set.intersection(*[s[rel] for s in per_seed])) for rel in anchors.files_of(prop)}}
        print(prop, {rel: len(v) for rel, v in base[prop]["quick"].items()})
json.dump(base, open(bpath, "w"), indent=1, sort_keys=True)
