#!/usr/bin/env python3
"""records the sha256 of every anchored source file of /repo in vf/anchors.json (run after a fix commit)"""
import hashlib, json, os
REPO = os.environ.get("VERIF_REPO", "/repo")
out = {}
for dirpath, _, files in os.walk(os.path.join(REPO, "corankco")):
    for fn in files:
        if fn.endswith(".py"):
            p = os.path.join(dirpath, fn)
            out[os.path.relpath(p, REPO)] = hashlib.sha256(open(p, "rb").read()).hexdigest()
json.dump(out, open(os.path.join(os.path.dirname(os.path.abspath(__file__)), "..", "vf", "anchors.json"), "w"), indent=1, sort_keys=True)
print(len(out), "files recorded")
