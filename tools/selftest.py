#!/usr/bin/env python3
"""calibration corpus: applies each selftest/<PROP>-<name>.diff to a scratch copy of /repo, runs the 52 repository tests
and the property's check, and reports one line per fault.  usage: tools/selftest.py [quick|thorough] [pattern]"""
import glob, json, os, shutil, subprocess, sys, tempfile
VERIF = os.path.dirname(os.path.dirname(os.path.abspath(__file__)))
PY = "/venv/bin/python"
tier = sys.argv[1] if len(sys.argv) > 1 else "quick"
pat = sys.argv[2] if len(sys.argv) > 2 else ""
results = []
for diff in sorted(glob.glob(os.path.join(VERIF, "selftest", "*.diff"))):
    name = os.path.basename(diff)[:-5]
    if pat not in name:
        continue
    prop = name.split("-")[0]
    scratch = tempfile.mkdtemp(prefix="vf-selftest-", dir="/var/tmp")
    try:
        wt = os.path.join(scratch, "repo")
        shutil.copytree("/repo", wt, ignore=shutil.ignore_patterns(".git", "__pycache__", "*.egg-info", "docs"))
        r = subprocess.run(["patch", "-p1", "-i", diff], cwd=wt, stdout=subprocess.PIPE, stderr=subprocess.STDOUT, text=True)
        if r.returncode != 0:
            results.append({"fault": name, "error": "patch does not apply"})
            print(name, "PATCH DOES NOT APPLY")
            continue
        env = dict(os.environ, NUMBA_CACHE_DIR=os.path.join(scratch, "nb"), PYTHONPATH=wt)
        t = subprocess.run([PY, "-m", "pytest", "-q", "-p", "no:cacheprovider", "-x", "tests"], cwd=wt, env=env,
                           stdout=subprocess.PIPE, stderr=subprocess.STDOUT, text=True)
        env2 = dict(os.environ, VERIF_REPO=wt, VERIF_NO_EVIDENCE="1")
        c = subprocess.run([os.path.join(VERIF, "check"), prop, tier], cwd=VERIF, env=env2, stdout=subprocess.PIPE,
                           stderr=subprocess.STDOUT, text=True)
        sigs = sorted({ln.split("signature=")[1].split(" ::")[0] for ln in c.stdout.splitlines() if "signature=" in ln})
        res = {"fault": name, "repository_tests_pass": t.returncode == 0, "check_exit": c.returncode, "signatures": sigs[:4]}
        results.append(res)
        print(name, "tests_pass" if t.returncode == 0 else "TESTS FAIL", "check_exit", c.returncode, sigs[:3])
    finally:
        shutil.rmtree(scratch, ignore_errors=True)
with open(os.path.join(VERIF, "selftest", f"results-{tier}.json"), "w") as f:
    json.dump(results, f, indent=1)
