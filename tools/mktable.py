#!/usr/bin/env python3
"""prints the table of DESIGN.md section 7.5 from evidence/*.json and, with --write, replaces it in DESIGN.md"""
import json, os, re, sys
VERIF = os.path.dirname(os.path.dirname(os.path.abspath(__file__)))
sys.path.insert(0, VERIF)
rows = ["| id | modes | shards | evaluations | distinct non-trivial | reach conditions | main observations | wall |",
        "|---|---|---|---|---|---|---|---|"]
for i in range(1, 21):
    p = f"C{i:02d}"
    d = json.load(open(os.path.join(VERIF, "evidence", p + ".json")))
    c = d["coverage"]
    mod = __import__(f"vf.monitors.c{i:02d}", fromlist=["x"])
    keys = getattr(mod, "SUMMARY_KEYS", [])[:4]
    obs = ", ".join(f"{k.replace('contract:', '')}={c['counters'].get(k, 0)}" for k in keys)
    gating = sum(1 for r in c["reach_conditions"] if r.get("gating", True))
    adv = len(c["reach_conditions"]) - gating
    modes = "".join(s["mode"] if len(s["mode"]) == 1 else "" for s in c["shard_info"])
    modes = "".join(sorted(set(c["modes"]), key=lambda m: (len(m), m)))
    rows.append(f"| {p} | {modes} | {c['shards']} | {c['evaluations']} | {c['distinct_nontrivial']} | {gating} gating, {adv} advisory | "
                f"{obs} | {d['wall_s']} s |")
table = "\n".join(rows)
print(table)
if "--write" in sys.argv:
    path = os.path.join(VERIF, "DESIGN.md")
    s = open(path).read()
    a = s.index("| id | modes | shards | evaluations |")
    b = s.index("\n\n", a)
    open(path, "w").write(s[:a] + table + s[b:])
