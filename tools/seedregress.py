#!/usr/bin/env python3
"""regression over the kept seeded changes: every seeded/<id> (except documented misses) must still be caught by the quick
tier of its property's check.  usage: tools/seedregress.py [pattern]   (writes seeded/REGRESSION.json)"""
import glob, json, os, subprocess, sys
VERIF = os.path.dirname(os.path.dirname(os.path.abspath(__file__)))
pat = sys.argv[1] if len(sys.argv) > 1 else ""
out = {}
for d in sorted(x for x in glob.glob(os.path.join(VERIF, "seeded", "C*")) if os.path.isdir(x)):
    sid = os.path.basename(d)
    if pat not in sid:
        continue
    r = subprocess.run([sys.executable, os.path.join(VERIF, "tools", "seedtest.py"), d, "--no-confirm"],
                       stdout=subprocess.PIPE, text=True)
    try:
        res = json.loads(r.stdout.strip().splitlines()[-1])
        prop = res["property"]
        out[sid] = {"exit": res["checks"][prop]["exit"], "signatures": res["checks"][prop]["signatures"][:3]}
    except Exception as exc:      # pylint: disable=broad-except
        out[sid] = {"error": repr(exc), "raw": r.stdout[-300:]}
    print(sid, out[sid], flush=True)
path = os.path.join(VERIF, "seeded", "REGRESSION.json")
if pat and os.path.exists(path):
    # a partial run updates the entries it re-ran
    with open(path) as f:
        merged = json.load(f)
    merged.update(out)
    out = merged
with open(path, "w") as f:
    json.dump(out, f, indent=1, sort_keys=True)
missed = [k for k, v in out.items() if v.get("exit") != 1]
print("NOT CAUGHT:", missed)
