#!/usr/bin/env python3
"""keep a confirmed seeded change under /verif/seeded/<id>/ : tools/keepseed.py <src out dir> <id> [note]
(re-runs tools/seedtest.py with confirmation and records what was run and what caught it)"""
import json, os, shutil, subprocess, sys
VERIF = os.path.dirname(os.path.dirname(os.path.abspath(__file__)))
src, sid = sys.argv[1], sys.argv[2]
note = " ".join(sys.argv[3:])
r = subprocess.run([sys.executable, os.path.join(VERIF, "tools", "seedtest.py"), src], stdout=subprocess.PIPE, text=True)
res = json.loads(r.stdout.strip().splitlines()[-1])
ok = res.get("tests_pass_with_change") and res.get("demo_fails_with_change") and res.get("demo_passes_without")
if not ok:
    print("NOT CONFIRMED", res); sys.exit(1)
dst = os.path.join(VERIF, "seeded", sid)
os.makedirs(dst, exist_ok=True)
for f in ("patch.diff", "demo.py"):
    shutil.copy(os.path.join(src, f), os.path.join(dst, f))
meta = json.load(open(os.path.join(src, "meta.json")))
meta.update({
    "id": sid,
    "confirmed": {"repository_tests_pass_with_change": True, "demo_fails_with_change": True, "demo_passes_without_change": True,
                  "how": "tools/seedtest.py: copy of /repo's working tree under /var/tmp, patch applied, 52 tests, demo on "
                         "patched and clean copies (PYTHONPATH=<copy>), then ./check <property> quick with VERIF_REPO=<copy>"},
    "quick_check": {p: {"exit": c["exit"], "signatures": c["signatures"]} for p, c in res["checks"].items()},
    "caught_by_quick": res["caught_by"],
    "note": note,
})
json.dump(meta, open(os.path.join(dst, "meta.json"), "w"), indent=1)
print(sid, "kept; caught by", res["caught_by"])
