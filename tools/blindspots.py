#!/usr/bin/env python3
"""
Which statements of the library do the workloads never execute?

    tools/blindspots.py [quick|thorough] [C01 C02 ...]

Runs each check with line coverage of every corankco source file (sys.monitoring, each location disabled after its first
hit), without touching evidence/, and prints, per source file, the executable lines no check reached, grouped by function.
Numba kernels are visible in the interpreted shards (mode C) only.  The result is written to .work/blindspots.json.
"""
import ast
import json
import os
import subprocess
import sys
import tempfile

VERIF = os.path.dirname(os.path.dirname(os.path.abspath(__file__)))
sys.path.insert(0, VERIF)
from vf import cover      # noqa: E402

REPO = os.environ.get("VERIF_REPO", "/repo")


def functions(path):
    with open(path) as f:
        tree = ast.parse(f.read())
    out = []

    def walk(nodes, prefix):
        for n in nodes:
            if isinstance(n, (ast.FunctionDef, ast.AsyncFunctionDef)):
                out.append((prefix + n.name, n.lineno, n.end_lineno))
                walk(n.body, prefix + n.name + ".")
            elif isinstance(n, ast.ClassDef):
                walk(n.body, prefix + n.name + ".")
    walk(tree.body, "")
    return out


def main():
    args = sys.argv[1:]
    tier = args[0] if args and args[0] in ("quick", "thorough") else "quick"
    props = [a for a in args if a.startswith("C")] or [f"C{i:02d}" for i in range(1, 21)]
    outdir = tempfile.mkdtemp(prefix="vf-lines-", dir=os.path.join(VERIF, ".work") if os.path.isdir(os.path.join(VERIF, ".work")) else None)
    env = dict(os.environ, VERIF_COVER_ALL="1", VERIF_NO_EVIDENCE="1", VERIF_LINES_OUT=outdir)
    for p in props:
        r = subprocess.run([os.path.join(VERIF, "check"), p, tier], cwd=VERIF, env=env, stdout=subprocess.PIPE,
                           stderr=subprocess.STDOUT, text=True)
        print(r.stdout.strip().splitlines()[-1][:160], flush=True)
    hit = {}
    per_prop = {}
    for p in props:
        fn = os.path.join(outdir, p + ".json")
        if not os.path.exists(fn):
            continue
        with open(fn) as f:
            d = json.load(f)
        per_prop[p] = d
        for rel, lines in d.items():
            hit.setdefault(rel, set()).update(lines)
    report = {}
    for rel in cover.all_repo_files(REPO):
        if "/experiments/" in rel or rel.endswith("__init__.py"):
            continue
        path = os.path.join(REPO, rel)
        want = cover.executable_lines(path, 1, 10 ** 9)
        missing = sorted(want - hit.get(rel, set()))
        if not missing:
            continue
        funcs = functions(path)
        by_func = {}
        for ln in missing:
            owner = "<module>"
            for name, lo, hi in funcs:
                if lo <= ln <= hi:
                    owner = name
            by_func.setdefault(owner, []).append(ln)
        report[rel] = {"executable": len(want), "missing": len(missing), "by_function": by_func}
        print(f"{rel}: {len(want) - len(missing)}/{len(want)}")
        for fnm, lns in by_func.items():
            print(f"    {fnm}: {lns}")
    os.makedirs(os.path.join(VERIF, ".work"), exist_ok=True)
    with open(os.path.join(VERIF, ".work", "blindspots.json"), "w") as f:
        json.dump({"tier": tier, "props": props, "report": report,
                   "per_property_hits": {p: {k: len(v) for k, v in d.items()} for p, d in per_prop.items()}}, f, indent=1)


if __name__ == "__main__":
    main()
