"""
pytest plugin: runs the repository's own tests with the monitors switched on.

    pytest -p vf.pytest_plugin <repo>/tests         (VF_PLUGIN_OUT=<file> receives a JSON report)

Installed: postcondition on get_kemeny_score (C01), recorder on pairwise_cost_matrix judged at session
end (C02), structural invariants on Ranking / Dataset (C16), and a wrapper on every algorithm's
compute_consensus_rankings that judges the returned consensus (C03 well-formedness, C04 reported score) and
compares deep snapshots of the dataset and scheme before / after the call (C15).
A contract that fires here is either too strict or a defect the tests do not assert.
"""
import json
import os

REPORT = {"algorithm_calls": 0, "problems": [], "kemeny_contract": 0, "cost_tables": 0, "invariants": 0}


class _Ctx:
    """minimal context for the shared monitors: records instead of raising"""
    replay = False

    def __init__(self):
        self.counters = {}

    def count(self, key, n=1):
        self.counters[key] = self.counters.get(key, 0) + n

    def violation(self, signature, what, case, observed=None, expected=None):
        if len(REPORT["problems"]) < 50:
            REPORT["problems"].append({"signature": signature, "what": what, "case": case,
                                       "observed": repr(observed), "expected": repr(expected)})


def pytest_configure(config):
    from vf import ref, libx, gen
    from vf.monitors import common, c15
    import corankco as ck
    ctx = _Ctx()
    REPORT["_ctx"] = ctx
    common.set_case(ctx, {"origin": "repository test suite"})
    common.install_kemeny_contract()
    common.install_cost_matrix_recorder()
    common.install_invariants()

    def wrap(cls):
        orig = cls.__dict__.get("compute_consensus_rankings")
        if orig is None or getattr(orig, "_vf_wrapped", False):
            return

        def compute_consensus_rankings(self, dataset, scoring_scheme, *args, **kwargs):
            before = (c15.snap_dataset(dataset), c15.snap_scheme(scoring_scheme))
            cons = orig(self, dataset, scoring_scheme, *args, **kwargs)
            REPORT["algorithm_calls"] += 1
            after = (c15.snap_dataset(dataset), c15.snap_scheme(scoring_scheme))
            name = type(self).__name__
            if before != after:
                ctx.violation("C15/inputs-modified", f"{name} modified its inputs", {"algorithm": name})
            one = args[0] if args else kwargs.get("return_at_most_one_ranking", False)
            for sig, what in common.consensus_problems(cons, dataset, False):
                ctx.violation(sig, f"{name}: {what}", {"algorithm": name})
            try:
                ds = libx.raw_dataset(dataset)
                sch = common.scheme_raw(scoring_scheme)
                score = cons.kemeny_score
                for r in cons.consensus_rankings:
                    want = ref.kemeny(libx.raw_ranking(r), ds, sch)
                    if not common.close(score, want, gen.is_dyadic(sch), 1e-6):
                        ctx.violation("C04/reported-score-wrong", f"{name}: reported {score}, true {float(want)}",
                                      {"algorithm": name, "ds": ds, "scheme": sch})
                        break
            except Exception as exc:      # pylint: disable=broad-except
                ctx.violation("C04/score-check-raised", f"{name}: {exc!r}", {"algorithm": name})
            del one
            return cons
        compute_consensus_rankings._vf_wrapped = True
        cls.compute_consensus_rankings = compute_consensus_rankings

    def all_subclasses(c):
        out = set()
        for s in c.__subclasses__():
            out.add(s)
            out |= all_subclasses(s)
        return out
    for cls in all_subclasses(ck.algorithms.RankAggAlgorithm):
        if cls.__module__.startswith("corankco"):
            wrap(cls)


def pytest_sessionfinish(session, exitstatus):
    from vf.monitors import common
    from vf import gen
    ctx = REPORT.pop("_ctx")
    # judge the recorded cost tables against the reference built from the position matrices
    for positions, s_raw, result in common.COST_CALLS:
        REPORT["cost_tables"] += 1
        table = common.table_from_positions(positions, s_raw)
        n = positions.shape[0]
        exact = gen.is_dyadic(s_raw)
        bad = False
        for i in range(n):
            for j in range(n):
                for k in range(3):
                    if not common.close(result[i][j][k], table[i][j][k], exact):
                        bad = True
        if bad:
            ctx.violation("C02/entry-differs", "cost table differs from the definition", {"positions": positions.tolist()})
    for sig, what in common.drain_invariant_problems():
        ctx.violation(sig, what, {"origin": "invariant during the repository tests"})
    REPORT["kemeny_contract"] = ctx.counters.get("contract:get_kemeny_score", 0)
    REPORT["invariants"] = common.INV_SEEN["ranking"] + common.INV_SEEN["dataset"]
    REPORT["exitstatus"] = int(exitstatus)
    out = os.environ.get("VF_PLUGIN_OUT")
    if out:
        with open(out, "w") as f:
            json.dump(REPORT, f, default=str)
