"""
Coverage-guided fuzzing of the ranking parser (C18 totality) with atheris / libFuzzer.

    python -m vf.fuzz_c18 <artifact dir> <seconds>

The fuzz target maps bytes onto the format's alphabet (so that libFuzzer's mutations stay inside the quantifier's
input space), calls Ranking.from_string and parse_ranking_with_ties_of_int under the scanner step budget, and lets
anything other than ValueError propagate: libFuzzer then stores the offending input as crash-<hash> in the
artifact directory.  corankco is imported normally (instrumenting the whole package breaks the numba kernels); only
the scanner and from_string are instrumented.
"""
import os
import sys


def main():
    art, seconds = sys.argv[1], sys.argv[2]
    import atheris
    import corankco as ck
    import corankco.utils as cu
    from vf.monitors import c18

    class _Ctx:
        spec = {"repo": os.environ.get("VERIF_REPO_DIR", "/repo")}
    c18.setup(_Ctx())
    cu.parse_ranking_with_ties = atheris.instrument_func(cu.parse_ranking_with_ties)
    alpha = c18.ALPHA
    n = len(alpha)

    def target(data):
        text = "".join(alpha[b % n] for b in data)
        for fn in (lambda: ck.Ranking.from_string(text), lambda: cu.parse_ranking_with_ties_of_int(text)):
            st, got = c18.bounded(fn, len(text))
            if st == "exc" and not isinstance(got, ValueError):
                raise got

    os.makedirs(art, exist_ok=True)
    atheris.Setup([sys.argv[0], f"-max_total_time={seconds}", "-max_len=48", f"-artifact_prefix={art}/",
                   "-print_final_stats=1", "-verbosity=0"], target)
    atheris.Fuzz()


if __name__ == "__main__":
    main()
