"""C16 -- Ranking / Dataset views stay consistent through every construction and mutation."""
import random

from vf import gen, ref
from vf.core import call, exc_desc
from vf.lazy import ck, libx, common

PROP = "C16"
TECHNIQUE = ('history + executable model: icontract invariants on Ranking / Dataset evaluated after every public method, full structural predicate and model equality after every step of random mutation histories; almost-integer and twin names; hand-built consensuses; histories on datasets of 10 000+ cells; the caller changes the list it had given to the constructor; rankings built from one-shot iterables under the Ranking invariant; constructor arguments naming an element twice')
RULE = ("history + executable model: a dataset (D2-D7, D12 names: ints, strings, int-like strings mixed with words so that "
        "removals change the expected element type) receives a random history of 3-10 operations among remove_elements "
        "(subset / non-members / everything), remove_elements_rate_presence_lower_than (rates 0..1 and boundaries k/m), "
        "remove_empty_rankings, interleaved with derived constructors (unified_rankings, unified_dataset, "
        "sub_problem_from_elements / ids) and algorithm runs whose consensus rankings are checked too; after every step the "
        "real object must satisfy the structural invariants (icontract invariants on Ranking and Dataset + explicit check) "
        "and equal the model; non-trivial = history with >= 3 operations of >= 2 kinds; distinct = digest of (dataset, history)")
ASSUMPTIONS = ["monitors read public accessors only", "remove_elements may drop rankings that become empty (both "
               "behaviours accepted, the model is re-synchronised on the non-empty rankings)",
               "presence-rate comparison in float arithmetic, as documented"]
SUMMARY_KEYS = ["histories", "ops", "invariant_evaluations", "mutations_shrinking_universe", "mutations_raising"]
THOROUGH_SCALE = 3
CRASH_IS_VIOLATION = False
OPS = ["eq_model", "remove_subset", "remove_subset", "remove_nonmember", "remove_mixed", "remove_all", "rate", "rate", "remove_empty",
       "unified_rankings", "unified_dataset", "sub_elements", "sub_ids", "algorithm", "from_string"]
ALGS = ["Borda", "PickAPerm", "BioConsert", "KwikSort", "Copeland", "BioCo"]


def setup(ctx):
    common.install_invariants()


def _plan(tier, seed):
    if tier == "quick":
        return [{"n_cases": 200, "mode": "A", "hashseed": i % 3} for i in range(8)] + \
               [{"n_cases": 2, "mode": "A", "params": {"xlarge": prof}, "hashseed": i % 2} for i, prof in enumerate(["cells", "wide", "tall"])]
    return [{"n_cases": 4000, "mode": "A", "hashseed": i % 4} for i in range(14)] + \
           [{"n_cases": 6, "mode": "A", "params": {"xlarge": prof}, "hashseed": i} for i, prof in enumerate(["cells", "wide", "tall", "cells"])]

def plan(tier, seed):
    """+ one shard running the repository's own tests under the monitors (vf/pytest_plugin.py)"""
    shards = _plan(tier, seed)
    if tier == "thorough":
        shards.append({"kind": "repotests", "n_cases": 0})
    return shards


def gen_case(rng, ctx):
    if ctx.params.get("xlarge"):
        # views of large datasets (matrices of 10 000+ cells, 63-1025 elements, 40-257 rankings) through a short history
        from vf.monitors import large
        case = large.gen_large(rng, profiles=[ctx.params["xlarge"]], index=ctx.index)
        ds = case["ds"]
        if case["n"] > 300:
            keep = set(case["base"][:300])
            ds = [[[e for e in b if e in keep] for b in r] for r in ds]
            ds = [[b for b in r if b] for r in ds]
        return {"ds": ds, "names_kind": "int", "dcls": "xlarge", "ops": [rng.choice(OPS) for _ in range(rng.randint(2, 4))],
                "opseed": rng.randrange(10 ** 6), "via": rng.choice(["constructor", "from_raw_list"])}
    kind = rng.choice(["int", "bigint", "str", "intlike", "mixed_str", "mixed_str", "int_and_str", "digits_plus_word", "almost_int",
                       "negint"])
    n = rng.randint(2, 8)
    _, names = gen.element_names(rng, n, kind)
    cls, ds = gen.dataset(rng, classes="D2 D3 D3 D4 D4 D6 D7 D14", names=names, n=n, mmax=6)
    k = rng.randint(3, 10)
    return {"ds": ds, "names_kind": kind, "dcls": cls, "ops": [rng.choice(OPS) for _ in range(k)],
            "opseed": rng.randrange(10 ** 6), "via": rng.choice(["constructor", "from_raw_list", "elements"])}


def model_normalise(ds):
    return libx.normalise_raw(ds)


def real_state(d):
    return [[sorted(((type(e.value).__name__, e.value) for e in b)) for b in r.buckets] for r in d.rankings]


def model_state(ds):
    return [[sorted(((type(e).__name__, e) for e in b)) for b in r] for r in ds]


def nonempty(state):
    return [r for r in state if r]


def report(ctx, case, step, probs, when):
    for sig, what in probs[:3]:
        ctx.violation(sig, f"after step {step} ({when}): {what}", {**case, "failed_step": step})
    return bool(probs)


def check_ranking_obj(ctx, case, step, r, origin):
    probs = common.ranking_problems(r)
    ctx.count("rankings_checked:" + origin)
    for sig, what in probs[:2]:
        ctx.violation(sig + ":" + origin, f"ranking obtained from {origin} at step {step}: {what}",
                      {**case, "failed_step": step})
    return not probs


def check_case(case, ctx):
    common.set_case(ctx, case)
    ds0 = case["ds"]
    rng = random.Random(case["opseed"])
    common.drain_invariant_problems()
    via = case.get("via", "constructor")
    ctx.count("via:" + via)
    if via == "from_raw_list":
        st, d = call(ck.Dataset.from_raw_list, [[set(b) for b in r] for r in ds0], "raw")
    elif via == "elements":
        st, d = call(lambda: ck.Dataset([ck.Ranking([{ck.Element(e) for e in b} for b in r]) for r in ds0]))
    elif gen.digest(ds0)[1] in "0123":
        # the caller keeps the list it gave to the constructor and goes on using it: the dataset's views must keep agreeing
        # with the dataset's own rankings
        caller = [libx.mk_ranking(r) for r in ds0]
        st, d = call(ck.Dataset, caller)
        if st == "ok":
            ctx.count("callers_list_changed_after_construction")
            uni0 = ref.universe(ds0)
            fresh_name = 10 ** 6 + 7 if ref.expected_type_is_int(ds0) else "a_new_name"
            how = rng.choice(["append", "pop", "replace", "clear"])
            if how == "append":
                caller.append(ck.Ranking([{ck.Element(fresh_name)}, {ck.Element(uni0[0])}]))
            elif how == "pop":
                caller.pop(rng.randrange(len(caller)))
            elif how == "replace":
                caller[rng.randrange(len(caller))] = ck.Ranking([{ck.Element(fresh_name)}])
            else:
                caller.clear()
            probs = common.dataset_problems(d)
            if probs:
                ctx.violation("C16/dataset-inconsistent-after-the-caller-changed-its-own-list",
                              f"Dataset(lst), then lst changed by the caller ({how}): {probs[0][1]}", {**case, "how": how})
                return
    else:
        st, d = call(libx.mk_dataset, ds0)
    if st == "exc":
        ctx.violation(f"C16/constructor-raises-{type(d).__name__}", "Dataset construction raised " + exc_desc(d), case)
        return
    # inputs without any element have no Dataset: documented EmptyDatasetException, nothing else, no object
    if gen.digest(ds0)[0] in "01":
        for label, build in (("no ranking", lambda: ck.Dataset([])), ("empty rankings only", lambda: ck.Dataset([ck.Ranking([]), ck.Ranking([])])),
                             ("from_raw_list without element", lambda: ck.Dataset.from_raw_list([[], []]))):
            ste, res = call(build)
            ctx.count("element_less_inputs")
            if ste == "ok":
                probs0 = common.dataset_problems(res)
                if probs0 or res.nb_elements != 0:
                    ctx.violation("C16/element-less-input-gives-inconsistent-dataset", f"{label}: {probs0[:1]}", case)
            elif type(res).__name__ != "EmptyDatasetException":
                ctx.violation(f"C16/element-less-input-raises-{type(res).__name__}", f"{label}: {exc_desc(res)} instead of "
                              "the documented EmptyDatasetException", case)
    # constructor arguments that name an element twice (buckets given as lists / tuples): refused with ValueError, or else
    # a ranking whose views agree with its buckets
    if gen.digest(ds0)[2] in "01234567":
        r2 = random.Random(case["opseed"] * 31 + 7)
        pool = [r for r in ds0 if len(r) >= 2 and any(len(b) for b in r[:-1])]
        if pool:
            r0 = r2.choice(pool)
            odd = [list(b) for b in r0]
            i = r2.choice([j for j in range(len(odd) - 1) if odd[j]])
            how = r2.choice(["twice-in-one-bucket", "twice-in-one-bucket", "in-two-buckets"])
            if how == "twice-in-one-bucket":
                odd[i].insert(r2.randint(0, len(odd[i])), odd[i][0])
            else:
                odd[r2.randrange(i + 1, len(odd))].append(odd[i][0])
            if r2.random() < 0.5:
                odd = [tuple(b) for b in odd]
            sto, ro = call(ck.Ranking, odd)
            ctx.count("rankings_naming_an_element_twice")
            if sto == "ok":
                ctx.count("rankings_naming_an_element_twice_accepted")
                if not check_ranking_obj(ctx, {**case, "argument": [list(b) for b in odd]}, -1, ro, "constructor:element-named-" + how):
                    return
            elif not isinstance(ro, ValueError):
                ctx.violation(f"C16/ranking-constructor-raises-{type(ro).__name__}", f"Ranking({odd}): {exc_desc(ro)}",
                              {**case, "argument": [list(b) for b in odd]})
                return
            common.drain_invariant_problems()
    model = model_normalise(ds0)
    ctx.count("histories")
    if case.get("dcls") == "xlarge":
        ctx.count("xlarge_histories")
        if len(ref.universe(ds0)) * len(ds0) >= 10000:
            ctx.count("xlarge_histories_10000_cells")
    ctx.count("names:" + case["names_kind"])
    probs = common.dataset_problems(d) + common.drain_invariant_problems()
    if real_state(d) != model_state(model):
        probs.append(("C16/constructed-dataset-differs-from-input", f"{real_state(d)} vs {model_state(model)}"))
    if report(ctx, case, -1, probs, "construction"):
        return
    kinds = set()
    prev_mut = False
    derived = []          # (step, kind, Dataset object, its state when it was derived)
    for step, op in enumerate(case["ops"]):
        # datasets derived earlier (unified / projected) must not be affected by what happens to their source afterwards
        for d_step, d_kind, d_obj, d_state in derived:
            probs_d = common.dataset_problems(d_obj)
            if probs_d or real_state(d_obj) != d_state:
                what = probs_d[0][1] if probs_d else f"its rankings changed to {real_state(d_obj)}"
                ctx.violation(f"C16/derived-dataset-affected-by-later-operations-on-its-source:{d_kind}",
                              f"the dataset derived at step {d_step} ({d_kind}) became inconsistent after the later "
                              f"operations {case['ops'][d_step + 1:step]} on its source: {what}",
                              {**case, "failed_step": step, "derived_at": d_step})
                return
        uni = ref.universe(model)
        ei = ref.expected_type_is_int(model)
        ctx.count("ops")
        ctx.count("op:" + op)
        kinds.add(op)
        before = real_state(d)
        mut = op.startswith("remove") or op == "rate"
        if mut and prev_mut:
            ctx.count("mutator_after_mutator")
        exc = None
        expected = None
        if op in ("remove_subset", "remove_nonmember", "remove_mixed", "remove_all"):
            if op == "remove_subset":
                victims = [e for e in uni if rng.random() < 0.35] or [rng.choice(uni)]
                if len(victims) == len(uni):
                    victims = victims[:-1]
            elif op == "remove_all":
                victims = list(uni)
            elif op == "remove_nonmember":
                victims = [10 ** 6 + 1] if ei else ["not_there"]
            else:
                victims = [rng.choice(uni)] + ([10 ** 6 + 2] if ei else ["nope"])
                if len(uni) == 1:
                    victims = victims[1:]
            expected = [[[e for e in b if e not in victims] for b in r] for r in model]
            expected = [[b for b in r if b] for r in expected]
            arg = {ck.Element(v) for v in victims}
            st, res = call(d.remove_elements, arg)
            detail = {"victims": victims}
        elif op == "rate":
            m = len(model)
            choice = rng.random()
            if choice < 0.5:
                rate = rng.randint(0, m) / m
            elif choice < 0.8:
                rate = (rng.randint(0, m) + rng.choice([-0.5, 0.5])) / m
            else:
                rate = rng.choice([0.0, 1.0, 0.5, 0.33, 2.0])
            presence = {e: sum(1 for r in model if any(e in b for b in r)) for e in uni}
            victims = [e for e in uni if presence[e] / m < rate]
            expected = [[[e for e in b if e not in victims] for b in r] for r in model]
            expected = [[b for b in r if b] for r in expected]
            st, res = call(d.remove_elements_rate_presence_lower_than, rate)
            detail = {"rate": rate, "victims": victims}
        elif op == "remove_empty":
            expected = [r for r in model if r]
            st, res = call(d.remove_empty_rankings)
            detail = {}
        else:
            st, res, detail = "ok", None, {}
        if mut:
            case_step = {**case, "failed_step": step, "step_detail": {k: v for k, v in detail.items()}}
            inv = common.drain_invariant_problems()
            probs = common.dataset_problems(d)
            if st == "exc":
                ctx.count("mutations_raising")
                empty_expected = not ref.universe(expected)
                documented = isinstance(res, ck.EmptyDatasetException) and empty_expected
                if not documented:
                    # not settled by the statement (e.g. KeyError for a non-member): recorded; the object must
                    # nevertheless be self-consistent and unchanged
                    ctx.count(f"undocumented_exception:{type(res).__name__}:{op}")
                if probs:
                    for sig, what in probs[:2]:
                        ctx.violation(sig + ":after-refused-mutation", f"after step {step} ({op} {detail} refused with "
                                      f"{type(res).__name__}): {what}", case_step)
                    return
                if real_state(d) != before:
                    ctx.violation("C16/refused-mutation-changed-the-dataset", f"step {step} ({op}) raised "
                                  f"{type(res).__name__} but the rankings changed", case_step)
                    return
            else:
                allp = probs + [p for p in inv if p not in probs]
                if allp:
                    for sig, what in allp[:2]:
                        ctx.violation(sig, f"after step {step} ({op} {detail}): {what}", case_step)
                    return
                want = model_normalise(expected) if ref.universe(expected) else expected
                got = real_state(d)
                if nonempty(got) != nonempty(model_state(want)) or (op == "remove_empty" and got != model_state(want)):
                    ctx.violation(f"C16/dataset-differs-from-model-after:{op}", f"after step {step} ({op} {detail}) the "
                                  f"dataset holds {got}, the model {model_state(want)}", case_step, observed=got,
                                  expected=model_state(want))
                    return
                if len(ref.universe(want)) < len(uni):
                    ctx.count("mutations_shrinking_universe")
                if len(got) < len(before):
                    ctx.count("mutations_dropping_a_ranking")
                model = [[[v for _t, v in b] for b in r] for r in got]
        elif op in ("unified_rankings", "unified_dataset"):
            want = ref.unify(model)
            if op == "unified_rankings":
                st, res = call(d.unified_rankings)
                rankings = res if st == "ok" else None
            else:
                st, res = call(d.unified_dataset)
                rankings = res.rankings if st == "ok" else None
            ctx.count("derived_after_mutation" if prev_any_mut(case, step) else "derived_fresh")
            if st == "exc":
                ctx.violation(f"C16/{op}-raises-{type(res).__name__}", exc_desc(res), {**case, "failed_step": step})
                return
            for r in rankings:
                if not check_ranking_obj(ctx, case, step, r, op):
                    return
            got = [[sorted(((type(e.value).__name__, e.value) for e in b)) for b in r.buckets] for r in rankings]
            if got != model_state(want):
                ctx.violation(f"C16/{op}-is-not-the-input-plus-one-last-bucket", f"step {step}: {got} expected "
                              f"{model_state(want)}", {**case, "failed_step": step}, observed=got, expected=model_state(want))
                return
            if op == "unified_dataset":
                p2 = common.dataset_problems(res)
                if report(ctx, case, step, [(s + ":unified_dataset", w) for s, w in p2], op):
                    return
                derived.append((step, op, res, real_state(res)))
                if rng.random() < 0.3 and len(ref.universe(want)) >= 2:
                    # the reverse direction: mutate the derived dataset, the source must not notice
                    call(res.remove_elements, {ck.Element(ref.universe(libx.raw_dataset(res))[0])})
                    derived[-1] = (step, op, res, real_state(res))
                    ctx.count("derived_dataset_mutated")
        elif op in ("sub_elements", "sub_ids"):
            keep = [e for e in uni if rng.random() < 0.5] or [uni[0]]
            want = ref.project(model, keep)
            if op == "sub_elements":
                st, res = call(d.sub_problem_from_elements, {ck.Element(e) for e in keep})
            else:
                e2i = {e.value: i for e, i in d.mapping_elem_id.items()}
                st, res = call(d.sub_problem_from_ids, {e2i[e] for e in keep})
            ctx.count("derived_after_mutation" if prev_any_mut(case, step) else "derived_fresh")
            if st == "exc":
                ctx.violation(f"C16/{op}-raises-{type(res).__name__}", f"keep={keep}: " + exc_desc(res),
                              {**case, "failed_step": step, "keep": keep})
                return
            p2 = common.dataset_problems(res)
            if report(ctx, case, step, [(s + ":projection", w) for s, w in p2], op):
                return
            derived.append((step, op, res, real_state(res)))
            got = real_state(res)
            wantn = model_state(model_normalise(want))
            if got != wantn:
                ctx.violation(f"C16/projection-differs-from-model", f"step {step} keep={keep}: {got} expected {wantn}",
                              {**case, "failed_step": step, "keep": keep}, observed=got, expected=wantn)
                return
        elif op == "algorithm":
            cfg = rng.choice(ALGS)
            scheme = libx.mk_scheme(ref.PRESETS["unifying"])
            libx.seed_library(step)
            st, cons = call(libx.make_algorithm(cfg).compute_consensus_rankings, d, scheme, False)
            if st == "ok":
                for r in cons.consensus_rankings:
                    if not check_ranking_obj(ctx, case, step, r, "consensus:" + cfg):
                        return
            # a Consensus built by hand from the dataset's own rankings (they may hold empty buckets)
            st, cons2 = call(lambda: ck.Consensus(list(d.rankings), dataset=d, scoring_scheme=scheme))
            if st == "ok":
                ctx.count("hand_built_consensuses")
                for r in cons2.consensus_rankings:
                    if not check_ranking_obj(ctx, case, step, r, "consensus:hand-built"):
                        return
        elif op == "eq_model":
            # the dataset must compare equal to a fresh dataset built from the model (its current content)
            if ref.universe(model):
                fresh = libx.mk_dataset(model)
                st, eq = call(lambda: (d == fresh, fresh == d))
                ctx.count("eq_with_fresh_model")
                if st == "ok" and eq != (True, True):
                    ctx.violation("C16/dataset-not-equal-to-fresh-copy-of-its-content", f"step {step}: the dataset "
                                  f"{real_state(d)} compares {eq} with a fresh dataset built from the same rankings",
                                  {**case, "failed_step": step}, observed=list(eq), expected=[True, True])
                    return
        elif op == "from_string":
            r0 = rng.choice(model) if model else []
            text = str([set(b) for b in r0]) if r0 else "[]"
            st, r = call(ck.Ranking.from_string, text)
            if st == "ok":
                if not check_ranking_obj(ctx, case, step, r, "from_string"):
                    return
        # every step: the dataset itself must still be consistent (non-mutating operations included)
        inv = common.drain_invariant_problems()
        probs = common.dataset_problems(d)
        if not mut and (probs or inv):
            for sig, what in (probs + inv)[:2]:
                ctx.violation(sig + ":after-non-mutating-operation", f"after step {step} ({op}): {what}",
                              {**case, "failed_step": step})
            return
        prev_mut = mut
    ctx.count("invariant_evaluations", common.INV_SEEN["ranking"] + common.INV_SEEN["dataset"])
    common.INV_SEEN["ranking"] = common.INV_SEEN["dataset"] = 0
    if len(case["ops"]) >= 3 and len(kinds) >= 2:
        ctx.nontrivial({"ds": case["ds"], "ops": case["ops"], "opseed": case["opseed"]})
        ctx.sample({"ds": case["ds"], "ops": case["ops"], "final": real_state(d)}, key=case["names_kind"])


def prev_any_mut(case, step):
    return any(o.startswith("remove") or o == "rate" for o in case["ops"][:step])


def reach(counters, tier, info):
    k = 0.5 if tier == "quick" else 20
    out = []
    for name, key, need in [("histories on datasets of 63-300 elements / up to 257 rankings", "xlarge_histories", 5 if tier == "quick" else 20),
                            ("... of at least 10 000 (element, ranking) cells", "xlarge_histories_10000_cells", 2 if tier == "quick" else 8),
                            ("remove_elements calls", "op:remove_subset", 500 * k), ("rate filters", "op:rate", 500 * k),
                            ("remove_empty_rankings calls", "op:remove_empty", 200 * k),
                            ("mutations that shrink the universe", "mutations_shrinking_universe", 100 * k),
                            ("mutations that drop a ranking", "mutations_dropping_a_ranking", 100 * k),
                            ("mutations that raise", "mutations_raising", 50 * k),
                            ("mutator following a mutator", "mutator_after_mutator", 500 * k),
                            ("derived constructors on an already-mutated dataset", "derived_after_mutation", 500 * k),
                            ("derived datasets mutated (the source must not notice)", "derived_dataset_mutated", 60 * k),
                            ("Ranking constructor given a list / tuple bucket that names an element twice", "rankings_naming_an_element_twice", 200 * k),
                            ("datasets whose caller changed, afterwards, the list it had given", "callers_list_changed_after_construction", 100 * k),
                            ("invariant evaluations (icontract)", "invariant_evaluations", 50000 * k)]:
        v = counters.get(key, 0)
        out.append({"name": name, "observed": v, "required": need, "ok": v >= need})
    for origin in ("unified_rankings", "unified_dataset", "from_string", "consensus:PickAPerm", "consensus:BioConsert"):
        v = counters.get("rankings_checked:" + origin, 0)
        out.append({"name": f"rankings obtained from {origin} checked", "observed": v, "required": 50 * k, "ok": v >= 50 * k})
    return out
