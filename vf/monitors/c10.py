"""C10 -- PickAPerm returns exactly the best input rankings."""
from vf import gen, ref
from vf.core import call, exc_desc
from vf.lazy import ck, libx, common
from vf.monitors import algos, large

PROP = "C10"
TECHNIQUE = ('runtime monitoring of PickAPerm (shared object, second scheme on the same objects) against the reference candidates / minima; refusal expected iff incomplete and not a multiple of the unifying scheme on both vectors; traps of 1000+ elements and size classes (vectorised reference); same objects again after an in-place mutation; the bench_mode route')
RULE = ("cases = dataset (D1-D6 incl. duplicates, ties among minima, empty rankings; D7, D8; n<=8) x scheme (S1 presets, S2 "
        "multiples, S5 look-alikes proportional to the unifying scheme on ONE vector only, S3, S4) x both values of "
        "return_at_most_one_ranking; non-trivial = >= 2 distinct candidate rankings; distinct = digest of (dataset, scheme, flag)")
ASSUMPTIONS = ["reference model vf/ref.py", "dyadic penalties", "'the unifying scheme' = any positive multiple of it on both vectors"]
SUMMARY_KEYS = ["accepted", "refusals_expected", "several_minima", "lookalike_refusals_expected"]
CRASH_IS_VIOLATION = False


def plan(tier, seed):
    if tier == "quick":
        return [{"n_cases": 500, "mode": "A", "hashseed": i % 3} for i in range(8)] + \
               [{"n_cases": 4, "mode": "A", "params": {"xlarge": prof}, "hashseed": i % 2} for i, prof in enumerate(["trap", "wide", "cells"])]
    return [{"n_cases": 6000, "mode": "A", "hashseed": i % 4} for i in range(12)] + \
           [{"n_cases": 12, "mode": "A", "params": {"xlarge": prof}, "hashseed": i % 4}
            for i, prof in enumerate(["trap", "trap", "sweep", "cells"])]


def unifying_lookalike(rng):
    """proportional to the unifying scheme on one vector only"""
    uni = ref.PRESETS["unifying"]
    k = rng.choice([1.0] + gen.SCALES)
    if rng.random() < 0.6:
        k2 = rng.choice([x for x in [1.0] + gen.SCALES if x != k])
        return [[v * k for v in uni[0]], [v * k2 for v in uni[1]]]
    other = rng.choice(["pseudodistance", "induced", "extended"])
    if rng.random() < 0.5:
        return [[v * k for v in uni[0]], [v * k for v in ref.PRESETS[other][1]]]
    return [[v * k for v in ref.PRESETS[other][0]], [v * k for v in uni[1]]]


def gen_case(rng, ctx):
    prof = ctx.params.get("xlarge")
    if prof == "trap":
        # more than 1000 elements: input rankings that differ in the middle of a long common chain and score differently
        ds, info = gen.trap_dataset(rng, tail=rng.choice([1000, 1000, 1003, 1100]), head=rng.choice([3, 3, 4, 6]))
        if rng.random() < 0.4:
            ds = ds + [[list(b) for b in r] for r in ds[:1]]
        sch = gen.scale(ref.PRESETS[rng.choice(["unifying", "unifying", "pseudodistance", "unifying_half"])], rng.choice([1.0, 1.0, 2.0]))
        n = len(ref.universe(ds))
        return {"ds": ds, "scheme": sch, "scheme2": None, "dcls": "xlarge", "scls": "S2", "one": rng.random() < 0.4, "n": n,
                "m": len(ds), "profile": "trap", "libseed": 0}
    if prof:
        case = large.gen_large(rng, profiles=[prof], index=ctx.index)
        if len(case["ds"]) > 8:
            case["ds"] = case["ds"][:6]       # PickAPerm scores every input ranking against all the others
            missing = [e for e in case["base"] if e not in set(gen.universe_of(case["ds"]))]
            if missing:
                case["ds"].append([[e] for e in missing])
            case["m"] = len(case["ds"])
        if not ref.is_complete(case["ds"]):
            case["scheme"] = gen.scale(ref.PRESETS["unifying"], rng.choice([1.0, 2.0, 0.5, 3.0]))
        case.update({"scheme2": None, "dcls": "xlarge", "one": rng.random() < 0.4})
        return case
    cls, ds = gen.dataset(rng, classes="D1 D2 D3 D3 D4 D5 D6 D6 D7 D8 D17 D17 D16 D18 D14 D14", nmax=8, mmax=7)
    ds = libx.normalise_raw(ds)
    which = rng.random()
    if which < 0.08:
        # hostile class: near-equal minima -- complete rankings with ties under a scheme whose tie cost is 2^-40 .. 2^-34
        # of the inversion cost: scores such as k + p and k + 2p, different in fact, equal for any relative tolerance
        cls, ds = gen.dataset(rng, classes="D2 D2 D13 D17", nmax=6, mmax=6, outlier=0)
        ds = libx.normalise_raw(ds)
        return {"ds": ds, "scheme": gen.scheme_extreme_ratio(rng), "scheme2": None, "dcls": cls, "scls": "S12", "one": False}
    if which < 0.16:
        # hostile class: several distinct input rankings at the extreme score 0 (ties are free, rankings differ by ties)
        cls, ds = gen.dataset(rng, cls="D13", nmax=7, mmax=6)
        ds = libx.normalise_raw(ds)
        return {"ds": ds, "scheme": gen.scheme_free_ties(rng), "scheme2": gen.scheme(rng, "S1 S11")[1], "dcls": cls,
                "scls": "S9", "one": rng.random() < 0.3}
    if which < 0.25:
        scls, sch = "unifying-multiple", gen.scale(ref.PRESETS["unifying"], rng.choice([1.0] + gen.SCALES + gen.ODD_SCALES))
    elif which < 0.55:
        scls, sch = "unifying-lookalike", unifying_lookalike(rng)
    else:
        scls, sch = gen.scheme(rng, "S1 S2 S3 S4 S5 S10 S12 S12 S12 S14")
    sch2 = gen.scheme(rng, "S1 S2 S3 S11 S9")[1] if rng.random() < 0.7 else None
    return {"ds": ds, "scheme": sch, "scheme2": sch2, "dcls": cls, "scls": scls, "one": rng.random() < 0.5}


def check_xlarge(case, ctx):
    """63 .. 1100+ elements: the returned rankings against the input rankings scored by the vectorised reference"""
    lc = large.Context(case)
    one = case["one"]
    sub = large.slim(case, one=one)
    common.set_case(ctx, sub)
    ctx.unit()
    st, cons = large.run("PickAPerm", lc, one, 0)
    if st != "ok":
        ctx.violation(f"C10/raises-{type(cons).__name__}", f"PickAPerm did not answer on {case['n']} elements x {case['m']} "
                      f"rankings: {exc_desc(cons)}", sub)
        return
    ctx.count("accepted")
    ctx.count("xlarge_judged")
    if case["n"] > 1000:
        ctx.count("xlarge_judged_above_1000_elements")
    cands = ref.unify(lc.ds) if not lc.complete else [r for r in lc.ds]
    scores = [lc.score(c) for c in cands]
    best = min(scores)
    by_canon = {}
    for c, sc in zip(cands, scores):
        by_canon[ref.canon(c)] = sc
    minimal = {c for c, sc in by_canon.items() if sc == best}
    if len({sc for sc in by_canon.values()}) >= 2:
        ctx.count("xlarge_with_different_scores")
    rankings = [libx.raw_ranking(r) for r in cons.consensus_rankings]
    if len(rankings) == 0 or (one and len(rankings) != 1):
        ctx.violation("C10/more-than-one-returned" if rankings else "C10/nothing-returned", f"{len(rankings)} rankings returned "
                      f"(at most one asked: {one})", sub)
        return
    for r in rankings:
        c = ref.canon(r)
        if c not in by_canon:
            ctx.violation("C10/returned-ranking-is-not-an-input-ranking", f"a returned ranking over {case['n']} elements is not "
                          "one of the (unified) input rankings", sub)
            return
        if by_canon[c] != best:
            ctx.violation("C10/returned-ranking-is-not-minimal", f"{case['n']} elements: a returned ranking scores {by_canon[c]} "
                          f"but the best input ranking scores {best} (scores of the distinct inputs: "
                          f"{sorted(set(by_canon.values()))[:6]})", sub, observed=by_canon[c], expected=best)
            return
    if not one and not minimal <= {ref.canon(r) for r in rankings}:
        ctx.violation("C10/minimal-input-ranking-missing", f"all minimal rankings requested: {len(rankings)} returned, "
                      f"{len(minimal)} distinct minimal input rankings exist", sub)
        return
    ctx.nontrivial({"n": case["n"], "m": case["m"], "d": gen.digest(case["ds"]), "one": one})


def check_case(case, ctx):
    """the same Dataset object (and, through algos.run_config, the same PickAPerm object) is aggregated under the case's
    scheme and then under a second, non-proportional scheme: state kept from the first call must not leak"""
    if case.get("dcls") == "xlarge":
        return check_xlarge(case, ctx)
    common.set_case(ctx, case)
    dataset = libx.mk_dataset(case["ds"])
    judge(case, ctx, dataset, case["scheme"], first=True)
    if case.get("scheme2") is not None:
        ctx.count("second_scheme_on_same_objects")
        judge(case, ctx, dataset, case["scheme2"], first=False)
    # history: the same Dataset object is mutated in place (or a dataset derived from it is) and given to the same PickAPerm
    # object again: judged against the rankings it holds now
    if len(ref.universe(case["ds"])) >= 2:
        import random
        r2 = random.Random(gen.digest(case["ds"]))
        kind, ok = algos.mutate_in_place(dataset, case["ds"], r2)
        st_now, now = call(libx.raw_dataset, dataset)
        if ok and st_now == "ok" and ref.universe(now):
            ctx.count("runs_after_in_place_mutation")
            ctx.count("history:" + kind)
            judge({**case, "ds": now, "after": kind, "original_ds": case["ds"]}, ctx, dataset, case["scheme"], first=True)


def judge(case, ctx, dataset, sch, first):
    ds, one = case["ds"], case["one"]
    scheme = libx.mk_scheme(sch)
    complete = ref.is_complete(ds)
    unifying = ref.proportional(sch, ref.PRESETS["unifying"])
    must_refuse = (not complete) and not unifying
    ctx.unit()
    sub = {"ds": ds, "scheme": sch, "one": one}
    if case.get("after"):
        sub["after"], sub["original_ds"] = case["after"], case["original_ds"]
    if not first:
        sub["after_scheme"] = case["scheme"]
    st, cons, _ = algos.run_config("PickAPerm", dataset, scheme, one, 0)
    if must_refuse:
        ctx.count("refusals_expected")
        lookalike = ref.proportional([sch[0], ref.PRESETS["unifying"][1]], ref.PRESETS["unifying"]) or \
            ref.proportional([ref.PRESETS["unifying"][0], sch[1]], ref.PRESETS["unifying"])
        if lookalike:
            ctx.count("lookalike_refusals_expected")
        if st == "ok":
            sig = "C10/incomplete-dataset-accepted-with-non-unifying-scheme" + (":lookalike" if lookalike else "")
            ctx.violation(sig, "PickAPerm accepted an incomplete dataset under a scheme that is not a positive multiple "
                          "of the unifying scheme on both vectors", sub,
                          observed=[libx.raw_ranking(r) for r in cons.consensus_rankings][:2], expected="refusal")
        elif not isinstance(cons, libx.DOCUMENTED_REFUSALS):
            ctx.violation(f"C10/refusal-with-{type(cons).__name__}", "refusal with an undocumented exception: "
                          + exc_desc(cons), sub)
        else:
            ctx.count("refusals_observed")
            ctx.nontrivial(sub)
        return
    if st != "ok":
        sig = "C10/acceptable-input-refused" if isinstance(cons, libx.DOCUMENTED_REFUSALS) else \
            f"C10/raises-{type(cons).__name__}"
        ctx.violation(sig, f"PickAPerm did not answer on a {'complete' if complete else 'incomplete'} dataset "
                      f"({'unifying' if unifying else 'other'} scheme): {exc_desc(cons)}", sub)
        return
    ctx.count("accepted")
    cands, best, minimal = ref.pickaperm(ds, sch)
    cand_set = {ref.canon(c) for c in cands}
    try:
        rankings = [libx.raw_ranking(r) for r in cons.consensus_rankings]
    except Exception:      # pylint: disable=broad-except
        return
    if len(rankings) == 0:
        ctx.violation("C10/nothing-returned", "no ranking returned", sub)
        return
    if one and len(rankings) != 1:
        ctx.violation("C10/more-than-one-returned", f"{len(rankings)} rankings although at most one was asked", sub,
                      observed=rankings[:4])
    for r in rankings:
        c = ref.canon(r)
        if c not in cand_set:
            ctx.violation("C10/returned-ranking-is-not-an-input-ranking", f"{r} is not one of the (unified) input rankings",
                          sub, observed=r, expected=[ref.canon_sorted(x) for x in cands][:5])
            break
        if c not in minimal:
            ctx.violation("C10/returned-ranking-is-not-minimal", f"{r} scores {float(ref.kemeny(r, ds, sch))} but the best "
                          f"input ranking scores {float(best)}", sub, observed=ref.kemeny(r, ds, sch), expected=best)
            break
    if not one:
        got = {ref.canon(r) for r in rankings}
        if len(minimal) >= 2:
            ctx.count("several_minima")
            if best == 0:
                ctx.count("several_minima_at_score_zero")
        if not minimal <= got:
            ctx.violation("C10/minimal-input-ranking-missing", f"all minimal rankings requested: {len(got)} distinct "
                          f"returned, {len(minimal)} distinct minimal input rankings exist", sub,
                          observed=rankings[:5], expected=[list(map(sorted, m)) for m in minimal][:5])
    if len(cand_set) >= 2:
        ctx.nontrivial(sub)
        ctx.sample({**sub, "returned": rankings[:3], "best": float(best), "nb_minimal": len(minimal)},
                   key=("c" if complete else "i") + str(one))


def reach(counters, tier, info):
    k = 0.5 if tier == "quick" else 25
    out = []
    for name, key, need in [("accepted cases judged", "accepted", 1000 * k), ("refusals expected", "refusals_expected", 300 * k),
                            ("look-alike refusals expected", "lookalike_refusals_expected", 100 * k),
                            ("all-requested cases with >= 2 distinct minima", "several_minima", 100 * k),
                            ("second calls under another scheme on the same Dataset / PickAPerm objects",
                             "second_scheme_on_same_objects", 1500 * k),
                            ("all-requested cases with >= 2 distinct minima of score 0", "several_minima_at_score_zero", 40 * k),
                            ("Dataset objects aggregated again after an in-place mutation", "runs_after_in_place_mutation", 1500 * k),
                            ("... where the step is remove_empty_rankings", "history:remove_empty", 60 * k),
                            ("datasets of 63-1100+ elements judged (vectorised reference)", "xlarge_judged", 8 if tier == "quick" else 30),
                            ("... of more than 1000 elements", "xlarge_judged_above_1000_elements", 3 if tier == "quick" else 12),
                            ("... whose distinct input rankings score differently", "xlarge_with_different_scores", 5 if tier == "quick" else 20)]:
        v = counters.get(key, 0)
        out.append({"name": name, "observed": v, "required": need, "ok": v >= need})
    return out
