"""C09 -- BioConsert is never worse than any of its starting points."""
from vf import gen, ref
from vf.core import call, exc_desc
from vf.lazy import ck, libx, common
from vf.monitors import algos

PROP = "C09"
TECHNIQUE = ('runtime monitoring with recording proxies as starting algorithms (the consensus each starter handed over is logged at the boundary); true scores by the reference model; designed local-search traps (6-25 and 1000+ elements); size classes with starters; aggregation again after an in-place mutation; starters given in a tuple / set / frozenset / dict view; both values of return_at_most_one_ranking; opposing two-bucket rankings with a unanimous winner')
RULE = ("cases = dataset (D2-D4, D6-D11, string / int names in shuffled insertion order so that element-id order differs "
        "from the order in the starters' consensuses; n<=8) x scheme (S1-S3, S6) x starter list ({Borda}, {Copeland}, "
        "{KwikSort}, {PickAPerm}, {Borda,Copeland,KwikSort}, and the sharp detectors {ExactAlgorithmPulp} and {BioConsert} "
        "whose consensus is already a global / local optimum) or no starter or BioCo; every starter is wrapped in a "
        "recording proxy that logs the consensus it handed to BioConsert; non-trivial = the order of first appearance of "
        "the elements in a starting ranking differs from their id order in the dataset; distinct = digest of (dataset, "
        "scheme, starters, seed)")
ASSUMPTIONS = ["reference model vf/ref.py (true scores, not the reported ones)", "dyadic penalties"]
SUMMARY_KEYS = ["runs", "starts_compared", "scrambled_starts"]
THOROUGH_SCALE = 4
CRASH_IS_VIOLATION = False
STARTERS = [["Borda"], ["Copeland"], ["KwikSort"], ["PickAPerm"], ["Borda", "Copeland", "KwikSort"], ["Pulp"],
            ["BioConsert"], [], [], ["BioCo!"], ["Borda", "BordaBucket"], ["BordaBucket", "Borda"], ["KwikSort", "KwikSort"],
            ["BioConsert[Borda]", "BioConsert[Copeland]"], ["Copeland", "BordaBucket", "PickAPerm"],
            # starters that share a class / a full name but not a configuration; the last one is a global optimum, so a
            # starter that is silently dropped or overwritten shows as a strictly worse result
            ["BioConsert[Borda]", "BioConsert[Pulp]"], ["BioConsert[KwikSort]", "BioConsert[Pulp]"],
            ["BioConsert[Copeland]", "BioConsert[Pulp]"], ["Borda", "Pulp"], ["Exact", "Pulp"]]
TIMEOUT = {"quick": 900, "thorough": 5400}


def plan(tier, seed):
    if tier == "quick":
        return [{"n_cases": 300, "mode": "A", "hashseed": i % 3} for i in range(8)] + \
               [{"n_cases": 6, "mode": "A", "params": {"huge": True}}] + \
               [{"n_cases": 3, "mode": "A", "params": {"xlarge": prof}, "hashseed": i % 2} for i, prof in enumerate(["heavy", "wide", "cells"])]
    return [{"n_cases": 2200, "mode": "A", "hashseed": i % 4} for i in range(14)] + \
           [{"n_cases": 1200, "mode": "B", "hashseed": i} for i in range(2)] + \
           [{"n_cases": 3, "mode": "A", "params": {"huge": True}, "hashseed": i % 4} for i in range(10)] + \
           [{"n_cases": 8, "mode": "A", "params": {"xlarge": prof}, "hashseed": i} for i, prof in enumerate(["heavy", "wide", "cells", "tall"])]



def huge_case(rng):
    """more than 1000 elements (numpy's print threshold, deep recursion, int16 ranges): near-unanimous permutations that
    agree on their head and tail and differ on a few middle positions"""
    n = rng.choice([1009, 1030, 1100])
    base = list(range(n))
    rng.shuffle(base)
    ds = []
    lo = rng.randint(200, 700)
    for _ in range(rng.randint(4, 6)):
        r = list(base)
        mid = list(range(lo, lo + rng.choice([5, 6, 6, 7])))
        vals = [r[i] for i in mid]
        rng.shuffle(vals)
        for i, v in zip(mid, vals):
            r[i] = v
        ds.append([[e] for e in r])
    return ds


def gen_case(rng, ctx):
    if ctx.params.get("xlarge"):
        from vf.monitors import large
        case = large.gen_large(rng, profiles=[ctx.params["xlarge"]], schemes="S1 S1 S2 S3", index=ctx.index)
        cheap = case["profile"] in ("wide", "cells") and case["m"] <= 20
        return {"ds": case["ds"], "scheme": case["scheme"], "dcls": "xlarge", "scls": case["scls"], "libseed": case["libseed"],
                "starters": rng.choice([["BioCo!"], ["Borda"], ["Copeland"], ["Copeland", "Borda"]] + ([[]] if cheap else []))}
    if ctx.params.get("huge") and rng.random() < 0.67:
        # a local-search trap (gen.trap_dataset) inside a chain of more than 1000 elements: the majority ranking is the only
        # departure that reaches its own score, and it differs from the dissenting ranking in the middle of the chain only
        # (three or more common leading elements; s = 3, k = 2 is the combination from which the all-tied start stalls too)
        ds, info = gen.trap_dataset(rng, tail=rng.choice([1000, 1000, 1003, 1100]), head=rng.choice([3, 3, 4, 6]),
                                    order="dissenter-first" if rng.random() < 0.75 else None,
                                    sk=(3, 2) if rng.random() < 0.8 else None)
        return {"ds": ds, "scheme": [list(v) for v in ref.PRESETS["unifying"]], "dcls": "huge", "scls": "S1",
                "libseed": rng.randrange(10 ** 6), "starters": [], "trap": info}
    if not ctx.params.get("huge") and rng.random() < 0.06:
        # the same trap on a few elements, under schemes where a tie costs as much as an inversion
        ds, info = gen.trap_dataset(rng)
        ds = libx.normalise_raw(ds)
        sch = gen.scale(ref.PRESETS[rng.choice(["unifying", "pseudodistance", "induced"])], rng.choice([1.0, 1.0, 0.5, 2.0, 3.0]))
        return {"ds": ds, "scheme": sch, "dcls": "trap", "scls": "S2", "libseed": rng.randrange(10 ** 6), "starters": [],
                "trap": info}
    if not ctx.params.get("huge") and rng.random() < 0.04:
        # an incomplete dataset whose FIRST ranking is complete and ties two ints that collide in a small hash table (a copy
        # of that bucket may iterate in another order): element <-> id correspondences rebuilt from a copy of the rankings
        # differ from the dataset's own.  A departure ranking with two elements exchanged is repaired by the local search
        # in all but about one case in 5000 (measured on the seeded change C09f): this class is there for the thorough tier
        a, b = rng.choice([(3, 11), (5, 13), (7, 15), (3, 19), (11, 19)])
        others = rng.sample([x for x in range(0, 30) if x not in (a, b)], rng.choice([2, 3, 3, 4]))
        first = gen.ranking_over(rng, others, rng.choice([0.0, 0.3]))
        first.insert(rng.randint(0, len(first)), [a, b])
        ds = [first]
        for _ in range(rng.choice([3, 4, 5])):
            sub = [e for e in [a, b] + others if rng.random() >= rng.choice([0.2, 0.4])]
            ds.append(gen.ranking_over(rng, sub, rng.choice([0.0, 0.3])))
        sch = [list(v) for v in ref.PRESETS[rng.choice(["unifying_half", "pseudodistance_half", "induced_half", "unifying"])]]
        return {"ds": ds, "scheme": sch, "dcls": "colliding-tie-in-complete-first-ranking", "scls": "S1",
                "libseed": rng.randrange(10 ** 6), "starters": []}
    if ctx.params.get("huge"):
        return {"ds": huge_case(rng), "scheme": [list(v) for v in ref.PRESETS["unifying"]], "dcls": "huge", "scls": "S1",
                "libseed": rng.randrange(10 ** 6), "starters": []}
    if rng.random() < 0.05:
        # two-bucket rankings that split the same elements in opposite ways, all with one common element in the first bucket
        # (a unanimous winner), under cheap ties: moving one element at a time out of a bucket of two or three does not pay,
        # so the input rankings are local optima and the all-tied ranking is the only departure that reaches its own score
        g = rng.choice([2, 2, 3])
        names = rng.sample(range(0, 40), 2 * g + 1)
        top, rest = names[0], names[1:]
        ds = []
        for _ in range(rng.choice([1, 1, 2])):
            rng.shuffle(rest)
            g1, g2 = list(rest[:g]), list(rest[g:])
            k = rng.choice([1, 2])
            ds += [[[top] + g1, list(g2)] for _ in range(k)] + [[[top] + g2, list(g1)] for _ in range(k)]
        rng.shuffle(ds)
        pt = rng.choice([0.25, 0.375, 0.4, 0.5, 0.5])
        sch = [[0., 1., pt, 0., 1., pt], [pt, pt, 0., pt, pt, 0.]]
        return {"ds": libx.normalise_raw(ds), "scheme": sch, "dcls": "two-bucket-opposing+unanimous-first", "scls": "cheap-ties",
                "libseed": rng.randrange(10 ** 6), "starters": []}
    if rng.random() < 0.15:
        # opposing rankings with ties + one-bucket partial rankings under cheap ties: the all-tied ranking is the best
        # starting point (and the other starts lead to worse local optima)
        cls, ds = gen.dataset(rng, cls="D15", n=rng.randint(3, 6), mmax=6)
        if rng.random() < 0.5:
            # ... and one more element that every ranking puts in its first bucket (a unanimous winner does not make any
            # of the departure rankings dispensable)
            names = ref.universe(ds)
            top = max(names) + 1 if all(isinstance(x, int) for x in names) else "top_of_all"
            ds = [[list(r[0]) + [top]] + [list(b) for b in r[1:]] if r else [[top]] for r in ds]
            cls = "D15+unanimous-first"
        ds = libx.normalise_raw(ds)
        return {"ds": ds, "scheme": gen.scheme_cheap_ties(rng), "dcls": cls, "scls": "cheap-ties",
                "libseed": rng.randrange(10 ** 6), "starters": rng.choice([[], [], [], ["BioCo!"], ["Borda"]])}
    cls, ds = gen.dataset(rng, classes="D2 D3 D3 D4 D6 D7 D8 D9 D10 D11 D15 D15 D13 D16 D17 D14", nmax=8, mmax=6)
    ds = libx.normalise_raw(ds)
    scls, sch = gen.scheme(rng, "S1 S1 S2 S3 S3 S6 S9 S10 S10 S11 S12")
    return {"ds": ds, "scheme": sch, "dcls": cls, "scls": scls, "libseed": rng.randrange(10 ** 6),
            "starters": rng.choice(STARTERS)}


def make_proxy(inner, log):
    RankAggAlgorithm = ck.algorithms.RankAggAlgorithm

    class StarterProxy(RankAggAlgorithm):
        """delegates to the real starter and logs the consensus it returned"""

        def compute_consensus_rankings(self, dataset, scoring_scheme, return_at_most_one_ranking=True, bench_mode=False):
            cons = inner.compute_consensus_rankings(dataset, scoring_scheme, return_at_most_one_ranking, bench_mode)
            log.append([libx.raw_ranking(r) for r in cons.consensus_rankings])
            return cons

        def get_full_name(self):
            return inner.get_full_name()

        def is_scoring_scheme_relevant_when_incomplete_rankings(self, scoring_scheme):
            return inner.is_scoring_scheme_relevant_when_incomplete_rankings(scoring_scheme)

    return StarterProxy()


def first_appearance_differs(r, ids):
    """the order of first appearance of the elements in ranking r is not increasing in element id"""
    seq = [ids[e] for b in r for e in sorted(b, key=lambda x: ids[x])]
    return any(seq[i] > seq[i + 1] for i in range(len(seq) - 1))


def check_case(case, ctx):
    judge(case, ctx, case["ds"], None)
    # history: a Dataset object that BioConsert has just used is mutated in place (or a dataset derived from it is) and
    # aggregated again: the starting points are those of the rankings it holds now
    ds = case["ds"]
    if case.get("dcls") not in ("huge", "xlarge") and len(ref.universe(ds)) >= 2 and case["libseed"] % 2 == 0:
        import random
        shared = libx.mk_dataset(ds)
        call(lambda: ck.BioConsert().compute_consensus_rankings(shared, libx.mk_scheme(case["scheme"]), True))
        r2 = random.Random(case["libseed"])
        kind, ok = algos.mutate_in_place(shared, ds, r2)
        st_now, now = call(libx.raw_dataset, shared)
        if ok and st_now == "ok" and ref.universe(now):
            ctx.count("runs_after_in_place_mutation")
            ctx.count("history:" + kind)
            judge({**case, "after": kind, "original_ds": ds}, ctx, now, shared)


def judge(case, ctx, ds, dataset):
    sch = case["scheme"]
    common.set_case(ctx, case)
    if dataset is None:
        dataset = libx.mk_dataset(ds)
    scheme = libx.mk_scheme(sch)
    elems = ref.universe(ds)
    complete = ref.is_complete(ds)
    ids = {e.value: i for e, i in dataset.mapping_elem_id.items()}
    if len(elems) > 60 and gen.is_dyadic(sch):
        # large datasets: the vectorised reference (exact on dyadic penalties, cross-checked against the Fraction model)
        from vf import refnp
        order = sorted(ids, key=lambda e: ids[e])
        table_np = refnp.cost_table(ds, sch, order)

        def score(r):
            return refnp.score_from_table(refnp.candidate_positions(r, order), table_np)
    else:
        def score(r):
            return ref.kemeny(r, ds, sch)
    starters = case["starters"]
    sub = {"ds": ds, "scheme": sch, "starters": starters, "libseed": case["libseed"]}
    if case.get("after"):
        sub["after"], sub["original_ds"] = case["after"], case["original_ds"]
    log = []
    libx.seed_library(case["libseed"])
    # both values of return_at_most_one_ranking (True is what ParCons and a nesting BioConsert pass)
    one = (case["libseed"] // 7) % 2 == 1
    ctx.count("runs_asking_for_one_ranking" if one else "runs_asking_for_all_rankings")
    sub["one"] = one
    if starters == ["BioCo!"]:
        st, cons = call(lambda: ck.BioCo().compute_consensus_rankings(dataset, scheme, one))
        label = "BioCo"
    elif starters:
        logs = [[] for _ in starters]
        proxies = [make_proxy(libx.make_algorithm(s), lg) for s, lg in zip(starters, logs)]
        # the starting algorithms are given as a list, or as another re-iterable collection / a one-shot iterator
        # (a one-shot generator is consumed by the constructor's own validation loop today: not a supported form, not used)
        container = ["list", "list", "tuple", "dict-values", "set", "frozenset"][case["libseed"] % 6]
        given = {"list": lambda: list(proxies), "tuple": lambda: tuple(proxies),
                 "dict-values": lambda: {i: p_ for i, p_ in enumerate(proxies)}.values(), "set": lambda: set(proxies),
                 "frozenset": lambda: frozenset(proxies)}[container]()
        ctx.count("starters_given_as:" + container)
        sub["starters_given_as"] = container
        st, cons = call(lambda: ck.BioConsert(starting_algorithms=given).compute_consensus_rankings(dataset, scheme, one))
        label = "BioConsert[" + ",".join(starters) + "]"
    else:
        st, cons = call(lambda: ck.BioConsert().compute_consensus_rankings(dataset, scheme, one))
        label = "BioConsert"
    ctx.count("runs")
    ctx.count("runs:" + label)
    if case.get("dcls") == "huge":
        ctx.count("runs_on_more_than_1000_elements")
    if case.get("dcls") == "xlarge":
        ctx.count("xlarge_runs")
    if st != "ok":
        if isinstance(cons, libx.DOCUMENTED_REFUSALS) and not complete:
            ctx.count("refused")
            return
        ctx.violation(f"C09/raises-{type(cons).__name__}", f"{label} raised {exc_desc(cons)}", sub)
        return
    try:
        rankings = [libx.raw_ranking(r) for r in cons.consensus_rankings]
    except Exception:      # pylint: disable=broad-except
        return
    if not rankings or not all(common.wellformed_raw(r, elems) for r in rankings):
        ctx.count("ill_formed_left_to_C03")
        return
    scores = [score(r) for r in rankings]
    if len(set(scores)) > 1:
        ctx.violation("C09/returned-rankings-have-different-scores", f"{label}: returned rankings have true scores "
                      f"{[float(s) for s in scores]}", sub, observed=[float(s) for s in scores], expected="one score")
    result = max(scores)
    # the starting points
    starts = []
    if starters == ["BioCo!"]:
        stb, cb = call(lambda: ck.BordaCount().compute_consensus_rankings(dataset, scheme, True))
        if stb == "ok":
            starts.append(("Borda", libx.raw_ranking(cb.consensus_rankings[0])))
    elif starters:
        for name, lg in zip(starters, logs):
            if lg:
                starts.append((name, lg[0][0]))
            else:
                # the statement speaks of each starting algorithm's own consensus, whether or not BioConsert asked for
                # it: a starter that received no call is run here (only if it is deterministic)
                ctx.count("proxy_saw_no_call")
                if "KwikSort" not in name:
                    sts, cs = call(lambda nm=name: libx.make_algorithm(nm).compute_consensus_rankings(dataset, scheme, True))
                    if sts == "ok":
                        starts.append((name + " (never called by BioConsert)", libx.raw_ranking(cs.consensus_rankings[0])))
    else:
        for i, u in enumerate(ref.unify(ds)):
            starts.append((f"unified input #{i}", u))
        starts.append(("all tied", [list(elems)]))
        # corollary: default BioConsert is never worse than PickAPerm (where PickAPerm accepts)
        stp, cp = call(lambda: ck.PickAPerm().compute_consensus_rankings(dataset, scheme, True))
        if stp == "ok":
            starts.append(("PickAPerm", libx.raw_ranking(cp.consensus_rankings[0])))
    scrambled = False
    if not starters and starts and len(elems) <= 60 and min(score(s) for _n, s in starts) == score([list(elems)]) \
            and sum(1 for _n, s in starts if score(s) == score([list(elems)])) == 1:
        ctx.count("all_tied_is_the_strictly_best_start")
        if case.get("dcls") in ("D15+unanimous-first", "two-bucket-opposing+unanimous-first"):
            ctx.count("all_tied_is_the_strictly_best_start:unanimous_first_element")
    for name, srank in starts:
        if not common.wellformed_raw(srank, elems):
            continue
        ctx.count("starts_compared")
        s_score = score(srank)
        if first_appearance_differs(srank, ids):
            scrambled = True
        if result > s_score:
            kind = "starter" if starters and starters != ["BioCo!"] else ("bioco-vs-borda" if starters else "input")
            ctx.violation(f"C09/worse-than-starting-point:{kind}", f"{label} returned a consensus of score {float(result)} "
                          f"but its starting point {name} = {srank} scores {float(s_score)}", sub,
                          observed=result, expected=f"<= {float(s_score)}")
            break
    if scrambled:
        ctx.count("scrambled_starts")
        ctx.nontrivial(sub)
        ctx.sample({**sub, "returned": rankings[:2], "result_score": float(result),
                    "starts": [(n, float(score(r))) for n, r in starts[:4]]}, key=label)


def reach(counters, tier, info):
    k = 0.5 if tier == "quick" else 15
    out = []
    for name, key, need in [("runs whose starting ranking lists the elements in an order different from the id order",
                             "scrambled_starts", 500 * k), ("starting points compared", "starts_compared", 1500 * k),
                            ("runs on more than 1000 elements", "runs_on_more_than_1000_elements", 2),
                            ("runs whose starters were given as a dict view", "starters_given_as:dict-values", 40 * k),
                            ("runs whose starters were given as a set", "starters_given_as:set", 40 * k),
                            ("Dataset objects aggregated again after an in-place mutation", "runs_after_in_place_mutation", 400 * k),
                            ("... where the step is remove_empty_rankings", "history:remove_empty", 15 * k),
                            ("runs on 63-1025 elements / 40-257 rankings with starters", "xlarge_runs", 6 if tier == "quick" else 24),
                            ("no-starter runs where the all-tied ranking is the strictly best starting point",
                             "all_tied_is_the_strictly_best_start", 30 * k),
                            ("... and some element is in the first bucket of every input ranking",
                             "all_tied_is_the_strictly_best_start:unanimous_first_element", 10 * k)]:
        v = counters.get(key, 0)
        out.append({"name": name, "observed": v, "required": need, "ok": v >= need})
    for st in STARTERS:
        label = "BioCo" if st == ["BioCo!"] else ("BioConsert[" + ",".join(st) + "]" if st else "BioConsert")
        v = counters.get("runs:" + label, 0)
        out.append({"name": f"runs of {label}", "observed": v, "required": 80 * k, "ok": v >= 80 * k})
    v = counters.get("proxy_saw_no_call", 0)
    out.append({"name": "starters that received no call from BioConsert (advisory; their own consensus is then computed "
                        "by the check)", "observed": v, "required": 0, "ok": v == 0, "gating": False})
    return out
