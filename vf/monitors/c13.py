"""C13 -- Copeland ranks by pairwise victories and reports consistent features."""
from vf import gen, ref
from vf.core import exc_desc
from vf.lazy import ck, libx, common
from vf.monitors import algos

PROP = "C13"
TECHNIQUE = ('runtime monitoring of Copeland (consensus, scores, victory/equality/defeat counts) against the reference cost table; same-shape successor datasets on the shared object')
RULE = ("cases = dataset (D1-D7, D9; many equal-cost pairs through sparse rankings and degenerate schemes; n<=15) x scheme "
        "(S1-S4, S6); oracle = victories / equalities / defeats from the reference cost table; non-trivial = >= 3 elements "
        "and at least one equality or one pair decided only by unranked-status penalties; distinct = digest of (dataset, scheme)")
ASSUMPTIONS = ["reference model vf/ref.py", "dyadic penalties: equal costs are exactly equal",
               "the reported triple is (victories, equalities, defeats) as produced by copeland.py (the Consensus docstring "
               "lists another order; noted, not enforced)"]
SUMMARY_KEYS = ["accepted", "with_equality", "unranked_driven"]
CRASH_IS_VIOLATION = False


def plan(tier, seed):
    if tier == "quick":
        return [{"n_cases": 330, "mode": "A", "hashseed": i % 3} for i in range(7)] + [{"n_cases": 200, "mode": "B"}]
    return [{"n_cases": 5000, "mode": "A", "hashseed": i % 4} for i in range(12)] + \
           [{"n_cases": 3000, "mode": "B", "hashseed": i} for i in range(2)]


def gen_case(rng, ctx):
    big = rng.random() < 0.1
    cls, ds = gen.dataset(rng, classes="D1 D2 D3 D3 D4 D5 D6 D7 D7 D9 D21", nmax=15 if big else 8, mmax=7)
    ds = libx.normalise_raw(ds)
    scls, sch = gen.scheme(rng, "S1 S2 S3 S3 S4 S6 S6 S14 S14 S13")
    return {"ds": ds, "scheme": sch, "dcls": cls, "scls": scls}


def check_case(case, ctx):
    """the case's dataset, then a successor of the same shape (rankings reversed, elements renamed cyclically) built
    right after the first dataset and its consensus were dropped, so that it is likely to reuse their addresses; both
    are aggregated by the same CopelandMethod object (algos.run_config keeps one per process)"""
    judge(case, ctx, case["ds"], successor=False)
    ds = case["ds"]
    elems = ref.universe(ds)
    if len(elems) >= 2:
        ren = dict(zip(elems, elems[1:] + elems[:1]))
        ds2 = [[[ren[e] for e in b] for b in reversed(r)] for r in ds]
        if [len(r) for r in ds2] == [len(r) for r in ds]:
            ctx.count("same_shape_successors")
            judge({**case, "ds": ds2, "successor_of": ds}, ctx, ds2, successor=True)


def judge(case, ctx, ds, successor):
    sch = case["scheme"]
    common.set_case(ctx, case)
    rankings = [libx.mk_ranking(r) for r in ds]
    dataset = ck.Dataset(rankings)
    scheme = libx.mk_scheme(sch)
    elems = ref.universe(ds)
    n = len(elems)
    ctx.unit()
    sub = {"ds": ds, "scheme": sch}
    if successor:
        sub["successor_of"] = case["successor_of"]
    st, cons, _ = algos.run_config("Copeland", dataset, scheme, True, 0)
    if st != "ok":
        ctx.violation(f"C13/raises-{type(cons).__name__}", "Copeland raised " + exc_desc(cons), sub)
        return
    ctx.count("accepted")
    expected, score, ved = ref.copeland(ds, sch)
    try:
        got = libx.raw_ranking(cons.consensus_rankings[0])
        lib_scores = {e.value: float(v) for e, v in cons.copeland_scores.items()}
        lib_ved = {e.value: [float(x) for x in v] for e, v in cons.copeland_victories.items()}
    except Exception as exc:      # pylint: disable=broad-except
        ctx.violation(f"C13/features-unreadable-{type(exc).__name__}", "consensus features not readable: " + exc_desc(exc), sub)
        return
    if ref.canon(got) != ref.canon(expected):
        ctx.violation("C13/not-ordered-by-decreasing-copeland-score", f"Copeland returned {got}; by decreasing score the "
                      f"ranking is {expected}", sub, observed=got, expected=expected)
    if set(lib_scores) != set(elems) or any(ref.fr(lib_scores[e]) != score[e] for e in elems):
        ctx.violation("C13/reported-scores-wrong", "copeland_scores differ from victories + equalities/2", sub,
                      observed=lib_scores, expected={str(e): float(v) for e, v in score.items()})
    elif sum(ref.fr(v) for v in lib_scores.values()) != ref.fr(n * (n - 1)) / 2:
        ctx.violation("C13/scores-do-not-sum-to-n-choose-2", "scores do not sum to n(n-1)/2", sub, observed=lib_scores)
    if set(lib_ved) != set(elems):
        ctx.violation("C13/victories-feature-wrong-keys", "copeland_victories keys differ from the universe", sub,
                      observed=sorted(map(str, lib_ved)))
    else:
        for e in elems:
            if [int(x) for x in lib_ved[e]] != ved[e] or len(lib_ved[e]) != 3:
                ctx.violation("C13/victory-equality-defeat-counts-wrong", f"element {e!r}: reported {lib_ved[e]}, expected "
                              f"(victories, equalities, defeats) = {ved[e]}", sub, observed=lib_ved[e], expected=ved[e])
                break
            if sum(lib_ved[e]) != n - 1:
                ctx.violation("C13/counts-do-not-sum-to-n-1", f"element {e!r}: {lib_ved[e]}", sub, observed=lib_ved[e])
                break
    has_eq = any(v[1] for v in ved.values())
    if has_eq:
        ctx.count("with_equality")
    # a pair decided only by unranked-status penalties: no ranking contains both elements
    rposs = [ref.bucket_index(r) for r in ds]
    unranked_driven = any(all(not (x in rp and y in rp) for rp in rposs) for i, x in enumerate(elems) for y in elems[i + 1:])
    if unranked_driven:
        ctx.count("unranked_driven")
    if n >= 3 and (has_eq or unranked_driven):
        ctx.nontrivial(sub)
        ctx.sample({**sub, "returned": got, "scores": {str(k): float(v) for k, v in score.items()}},
                   key=case.get("dcls"))


def reach(counters, tier, info):
    k = 0.5 if tier == "quick" else 20
    out = []
    for name, key, need in [("consensuses judged", "accepted", 2000 * k), ("cases with at least one equality", "with_equality", 500 * k),
                            ("cases with a pair never ranked together", "unranked_driven", 300 * k),
                            ("same-shape successor datasets aggregated by the same object", "same_shape_successors", 1500 * k)]:
        v = counters.get(key, 0)
        out.append({"name": name, "observed": v, "required": need, "ok": v >= need})
    return out
