"""C13 -- Copeland ranks by pairwise victories and reports consistent features."""
from vf import gen, ref
from vf.core import call, exc_desc
from vf.lazy import ck, libx, common
from vf.monitors import algos, large

PROP = "C13"
TECHNIQUE = ('runtime monitoring of Copeland (consensus, scores, victory/equality/defeat counts) against the reference cost table; same-shape successor datasets on the shared object; sweep of every threshold size (63-1025 elements) against a vectorised Copeland; aggregation again after an in-place mutation; reshape twins; one dataset in twelve built from other ranking input forms (as in every property); the bench_mode route')
RULE = ("cases = dataset (D1-D7, D9; many equal-cost pairs through sparse rankings and degenerate schemes; n<=15) x scheme "
        "(S1-S4, S6); oracle = victories / equalities / defeats from the reference cost table; non-trivial = >= 3 elements "
        "and at least one equality or one pair decided only by unranked-status penalties; distinct = digest of (dataset, scheme)")
ASSUMPTIONS = ["reference model vf/ref.py", "dyadic penalties: equal costs are exactly equal",
               "the reported triple is (victories, equalities, defeats) as produced by copeland.py (the Consensus docstring "
               "lists another order; noted, not enforced)"]
SUMMARY_KEYS = ["accepted", "with_equality", "unranked_driven"]
CRASH_IS_VIOLATION = False


def plan(tier, seed):
    if tier == "quick":
        return [{"n_cases": 330, "mode": "A", "hashseed": i % 3} for i in range(7)] + [{"n_cases": 200, "mode": "B"}] + \
               [{"n_cases": 13, "mode": "A", "params": {"xlarge": "sweep", "offset": 13 * i}, "hashseed": i} for i in range(2)] + \
               [{"n_cases": 4, "mode": "A", "params": {"xlarge": prof}, "hashseed": i % 2} for i, prof in enumerate(["tall", "cells"])]
    return [{"n_cases": 5000, "mode": "A", "hashseed": i % 4} for i in range(12)] + \
           [{"n_cases": 3000, "mode": "B", "hashseed": i} for i in range(2)] + \
           [{"n_cases": 26, "mode": "A", "params": {"xlarge": "sweep", "offset": 13 * i}, "hashseed": i} for i in range(4)] + \
           [{"n_cases": 12, "mode": "A", "params": {"xlarge": prof}, "hashseed": i} for i, prof in enumerate(["tall", "cells", "heavy"])]


def gen_case(rng, ctx):
    if ctx.params.get("xlarge"):
        case = large.gen_large(rng, profiles=[ctx.params["xlarge"]], schemes="S1 S1 S2 S3 S6 S15",
                               index=ctx.index + ctx.params.get("offset", 0))
        case["dcls"] = "xlarge"
        return case
    big = rng.random() < 0.1
    cls, ds = gen.dataset(rng, classes="D1 D2 D3 D3 D4 D5 D6 D7 D7 D9 D21 D14", nmax=15 if big else 8, mmax=7)
    ds = libx.normalise_raw(ds)
    scls, sch = gen.scheme(rng, "S1 S2 S3 S3 S4 S6 S6 S14 S14 S13")
    return {"ds": ds, "scheme": sch, "dcls": cls, "scls": scls}


def check_xlarge(case, ctx):
    """size classes of vf/monitors/large.py: consensus, scores and counts against the vectorised reference"""
    lc = large.Context(case)
    sub = large.slim(case)
    common.set_case(ctx, sub)
    ctx.unit()
    st, cons = large.run("Copeland", lc, True, 0)
    if st != "ok":
        ctx.violation(f"C13/raises-{type(cons).__name__}", f"Copeland raised {exc_desc(cons)} on {case['n']} elements x "
                      f"{case['m']} rankings", sub)
        return
    ctx.count("accepted")
    ctx.count("xlarge_judged")
    ctx.count("xlarge:" + case["profile"])
    if case["profile"] == "sweep":
        ctx.setadd("xlarge_sizes", case["n"])
    score, v, e, d = lc.refnp.copeland(lc.table)
    expected = lc.refnp.groups_by(score, lc.elems, decreasing=True)
    try:
        got = libx.raw_ranking(cons.consensus_rankings[0])
        lib_scores = {x.value: float(val) for x, val in cons.copeland_scores.items()}
        lib_ved = {x.value: [float(y) for y in val] for x, val in cons.copeland_victories.items()}
    except Exception as exc:      # pylint: disable=broad-except
        ctx.violation(f"C13/features-unreadable-{type(exc).__name__}", "consensus features not readable: " + exc_desc(exc), sub)
        return
    if ref.canon(got) != ref.canon(expected):
        k = next((i for i, (a, b) in enumerate(zip(got, expected)) if set(a) != set(b)), min(len(got), len(expected)))
        ctx.violation("C13/not-ordered-by-decreasing-copeland-score", f"{case['n']} elements x {case['m']} rankings: the "
                      f"consensus ({len(got)} buckets) differs from the ranking by decreasing score ({len(expected)} buckets) "
                      f"from bucket {k} on", sub, observed=got[k:k + 2], expected=expected[k:k + 2])
    want_scores = dict(zip(lc.elems, score.tolist()))
    if set(lib_scores) != set(lc.elems) or any(lib_scores[x] != want_scores[x] for x in lc.elems):
        bad = [x for x in lc.elems if lib_scores.get(x) != want_scores[x]][:3]
        ctx.violation("C13/reported-scores-wrong", f"copeland_scores differ from victories + equalities/2 for e.g. {bad}", sub,
                      observed={str(x): lib_scores.get(x) for x in bad}, expected={str(x): want_scores[x] for x in bad})
    want_ved = {x: [int(a), int(b), int(c)] for x, a, b, c in zip(lc.elems, v, e, d)}
    if set(lib_ved) != set(lc.elems):
        ctx.violation("C13/victories-feature-wrong-keys", "copeland_victories keys differ from the universe", sub)
    else:
        bad = [x for x in lc.elems if [int(y) for y in lib_ved[x]] != want_ved[x]][:3]
        if bad:
            ctx.violation("C13/victory-equality-defeat-counts-wrong", f"e.g. element {bad[0]!r}: reported {lib_ved[bad[0]]}, "
                          f"expected {want_ved[bad[0]]}", sub, observed=lib_ved[bad[0]], expected=want_ved[bad[0]])
    ctx.nontrivial({"n": case["n"], "m": case["m"], "d": gen.digest(case["ds"]), "scheme": case["scheme"]})


def check_case(case, ctx):
    """the case's dataset, then a successor of the same shape (rankings reversed, elements renamed cyclically) built
    right after the first dataset and its consensus were dropped, so that it is likely to reuse their addresses; both
    are aggregated by the same CopelandMethod object (algos.run_config keeps one per process)"""
    if case.get("dcls") == "xlarge":
        return check_xlarge(case, ctx)
    ds = case["ds"]
    shared = ck.Dataset([libx.mk_ranking(r) for r in ds])
    judge(case, ctx, ds, successor=False, dataset=shared)
    elems = ref.universe(ds)
    # history: the Dataset object that the shared CopelandMethod object has just aggregated is mutated in place (or a
    # dataset derived from it is) and aggregated again: judged against the rankings it holds now
    if len(elems) >= 2:
        import random
        r2 = random.Random(gen.digest(ds))
        kind, ok = algos.mutate_in_place(shared, ds, r2)
        st_now, now = call(libx.raw_dataset, shared)
        if ok and st_now == "ok" and ref.universe(now):
            ctx.count("runs_after_in_place_mutation")
            ctx.count("history:" + kind)
            judge(case, ctx, now, successor=False, dataset=shared, after=kind)
    if gen.digest(ds)[0] in "0123":
        import random
        A, Bt = gen.reshape_twins(random.Random(gen.digest(ds)))
        for twin in (A, Bt):
            ctx.count("reshape_twins_aggregated")
            judge({**case, "ds": twin, "reshape_twins": [A, Bt]}, ctx, twin, successor=False)
    if len(elems) >= 2:
        ren = dict(zip(elems, elems[1:] + elems[:1]))
        ds2 = [[[ren[e] for e in b] for b in reversed(r)] for r in ds]
        if [len(r) for r in ds2] == [len(r) for r in ds]:
            ctx.count("same_shape_successors")
            judge({**case, "ds": ds2, "successor_of": ds}, ctx, ds2, successor=True)


def judge(case, ctx, ds, successor, dataset=None, after=None):
    sch = case["scheme"]
    common.set_case(ctx, case)
    if dataset is None:
        rankings = [libx.mk_ranking(r) for r in ds]
        dataset = ck.Dataset(rankings)
    scheme = libx.mk_scheme(sch)
    elems = ref.universe(ds)
    n = len(elems)
    ctx.unit()
    sub = {"ds": ds, "scheme": sch}
    if successor:
        sub["successor_of"] = case["successor_of"]
    if after:
        sub["after"] = after
        sub["original_ds"] = case["ds"]
    st, cons, _ = algos.run_config("Copeland", dataset, scheme, True, 0)
    if st != "ok":
        ctx.violation(f"C13/raises-{type(cons).__name__}", "Copeland raised " + exc_desc(cons), sub)
        return
    ctx.count("accepted")
    expected, score, ved = ref.copeland(ds, sch)
    try:
        got = libx.raw_ranking(cons.consensus_rankings[0])
        lib_scores = {e.value: float(v) for e, v in cons.copeland_scores.items()}
        lib_ved = {e.value: [float(x) for x in v] for e, v in cons.copeland_victories.items()}
    except Exception as exc:      # pylint: disable=broad-except
        ctx.violation(f"C13/features-unreadable-{type(exc).__name__}", "consensus features not readable: " + exc_desc(exc), sub)
        return
    if ref.canon(got) != ref.canon(expected):
        ctx.violation("C13/not-ordered-by-decreasing-copeland-score", f"Copeland returned {got}; by decreasing score the "
                      f"ranking is {expected}", sub, observed=got, expected=expected)
    if set(lib_scores) != set(elems) or any(ref.fr(lib_scores[e]) != score[e] for e in elems):
        ctx.violation("C13/reported-scores-wrong", "copeland_scores differ from victories + equalities/2", sub,
                      observed=lib_scores, expected={str(e): float(v) for e, v in score.items()})
    elif sum(ref.fr(v) for v in lib_scores.values()) != ref.fr(n * (n - 1)) / 2:
        ctx.violation("C13/scores-do-not-sum-to-n-choose-2", "scores do not sum to n(n-1)/2", sub, observed=lib_scores)
    if set(lib_ved) != set(elems):
        ctx.violation("C13/victories-feature-wrong-keys", "copeland_victories keys differ from the universe", sub,
                      observed=sorted(map(str, lib_ved)))
    else:
        for e in elems:
            if [int(x) for x in lib_ved[e]] != ved[e] or len(lib_ved[e]) != 3:
                ctx.violation("C13/victory-equality-defeat-counts-wrong", f"element {e!r}: reported {lib_ved[e]}, expected "
                              f"(victories, equalities, defeats) = {ved[e]}", sub, observed=lib_ved[e], expected=ved[e])
                break
            if sum(lib_ved[e]) != n - 1:
                ctx.violation("C13/counts-do-not-sum-to-n-1", f"element {e!r}: {lib_ved[e]}", sub, observed=lib_ved[e])
                break
    has_eq = any(v[1] for v in ved.values())
    if has_eq:
        ctx.count("with_equality")
    # a pair decided only by unranked-status penalties: no ranking contains both elements
    rposs = [ref.bucket_index(r) for r in ds]
    unranked_driven = any(all(not (x in rp and y in rp) for rp in rposs) for i, x in enumerate(elems) for y in elems[i + 1:])
    if unranked_driven:
        ctx.count("unranked_driven")
    if n >= 3 and (has_eq or unranked_driven):
        ctx.nontrivial(sub)
        ctx.sample({**sub, "returned": got, "scores": {str(k): float(v) for k, v in score.items()}},
                   key=case.get("dcls"))


def reach(counters, tier, info):
    k = 0.5 if tier == "quick" else 20
    out = []
    for name, key, need in [("consensuses judged", "accepted", 2000 * k), ("cases with at least one equality", "with_equality", 500 * k),
                            ("cases with a pair never ranked together", "unranked_driven", 300 * k),
                            ("same-shape successor datasets aggregated by the same object", "same_shape_successors", 1500 * k),
                            ("reshape twins (same matrix content, other shape) aggregated in a row", "reshape_twins_aggregated", 400 * k),
                            ("Dataset objects aggregated again after an in-place mutation", "runs_after_in_place_mutation", 1500 * k),
                            ("... where the step is remove_empty_rankings", "history:remove_empty", 60 * k),
                            ("datasets of 63-1025 elements / 40-257 rankings judged (vectorised reference)", "xlarge_judged",
                             30 if tier == "quick" else 100),
                            ("distinct sizes among gen.THRESHOLD_SIZES met", "xlarge_sizes", len(gen.THRESHOLD_SIZES))]:
        v = counters.get(key, 0) if key != "xlarge_sizes" else len(info["sets"].get("xlarge_sizes", ()))
        out.append({"name": name, "observed": v, "required": need, "ok": v >= need})
    return out
