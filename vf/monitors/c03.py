"""C03 -- every algorithm returns a well-formed consensus over exactly the universe."""
from vf import ref
from vf.core import call, exc_desc
from vf.lazy import ck, libx, common
from vf.monitors import algos, large

PROP = "C03"
TECHNIQUE = ('runtime monitoring of every algorithm configuration (shared algorithm objects, in-place mutation histories, stand-in CPLEX, bounds-checked and interpreted kernels, crash attribution) with a well-formedness oracle on each returned consensus; repository tests re-run under the monitors; size classes (63-1025 elements, 40-257 rankings); histories on a mutated derived dataset; reshape twins; datasets built from other ranking input forms; datasets pickled by another interpreter under another hash seed')
RULE = ("cases = dataset (D1-D10, int / string / int-like names in shuffled insertion order, n<=8) x scheme (S1-S3,S6) "
        "x a random subset of the algorithm configurations (20 without CPLEX; +3 CPLEX classes and the CPLEX branches of "
        "the selector / ParCons through the stand-in in mode D) x at-most-one flag x library RNG seed; "
        "non-trivial = >= 3 elements and the configuration did real work (an ILP was built, or >= 2 buckets returned); "
        "distinct = digest of (dataset, scheme, configuration, flag, seed)")
ASSUMPTIONS = ["documented refusals (scheme not handled on incomplete data, incompatible arguments) count as 'not accepted'",
               "CPLEX itself is never run: mode D uses the generic 0-1 ILP stand-in vf/standin/cplex"]
SUMMARY_KEYS = ["runs", "returned", "refused", "ilp_cases"]
THOROUGH_SCALE = 3
CRASH_IS_VIOLATION = True
TIMEOUT = {"quick": 900, "thorough": 5400}


def setup(ctx):
    algos.install_ilp_counter()


def _plan(tier, seed):
    if tier == "quick":
        return ([{"n_cases": 150, "mode": "A", "hashseed": i % 2} for i in range(6)] +
                [{"n_cases": 28, "mode": "AD", "hashseed": i % 2} for i in range(4)] +
                [{"n_cases": 60, "mode": "B"}, {"n_cases": 25, "mode": "C"}] +
                [{"n_cases": 2, "mode": "A", "params": {"xlarge": prof}, "hashseed": i % 2}
                 for i, prof in enumerate(["wide", "tall", "cells", "heavy"])])
    return ([{"n_cases": 900, "mode": "A", "hashseed": i % 4} for i in range(9)] +
            [{"n_cases": 250, "mode": "AD", "hashseed": i % 4} for i in range(8)] +
            [{"n_cases": 700, "mode": "B", "hashseed": i} for i in range(2)] +
            [{"n_cases": 250, "mode": "C", "hashseed": i} for i in range(2)] +
            [{"n_cases": 8, "mode": "A", "params": {"xlarge": prof}, "hashseed": i}
             for i, prof in enumerate(["sweep", "tall", "cells", "heavy"])])

def plan(tier, seed):
    """+ one shard running the repository's own tests under the monitors (vf/pytest_plugin.py)"""
    shards = _plan(tier, seed)
    shards.append({"kind": "repotests", "n_cases": 0})
    return shards


ENUMS = ["enum:EXACT", "enum:PARCONS", "enum:BIOCONSERT", "enum:BIOCO", "enum:KWIKSORTRANDOM", "enum:PICKAPERM",
         "enum:BORDACOUNT", "enum:COPELANDMETHOD"]


def gen_case(rng, ctx):
    if ctx.params.get("xlarge"):
        case = large.gen_large(rng, profiles=[ctx.params["xlarge"]], index=ctx.index)
        case["dcls"] = "xlarge"
        return case
    case = algos.gen_algo_case(rng, ctx, nmax=6 if ("C" in ctx.mode or "D" in ctx.mode) else 8)
    # plus one algorithm obtained through get_algorithm(Algorithm.X): whatever object the enumeration hands out must
    # return well-formed consensuses too
    if case.get("dcls") == "huge-component":
        case["configs"] = case["configs"] + [rng.choice(["enum:PARCONS", "enum:BIOCONSERT", "enum:COPELANDMETHOD"])]
    else:
        case["configs"] = case["configs"] + [rng.choice(ENUMS)]
    return case


def check_xlarge(case, ctx):
    """size classes of vf/monitors/large.py: every affordable configuration returns a well-formed consensus"""
    lc = large.Context(case)
    common.set_case(ctx, large.slim(case))
    one = case["libseed"] % 2 == 0
    for cfg in large.configs_for(case, case["libseed"]) + ["KwikSort"]:
        sub = large.slim(case, configs=[cfg], one=one, libseed=case["libseed"])
        st, cons = large.run(cfg, lc, one, case["libseed"])
        ctx.count("runs")
        ctx.unit()
        if st != "ok":
            if large.refusal_expected(cfg, cons, lc):
                ctx.count("refused")
                continue
            ctx.violation(algos.exc_signature(PROP, cons), f"{cfg} (at_most_one={one}) did not return a consensus on "
                          f"{case['n']} elements x {case['m']} rankings: {exc_desc(cons)}", sub, observed=type(cons).__name__)
            continue
        ctx.count("returned")
        ctx.count("xlarge_returned")
        probs = common.consensus_problems(cons, lc.dataset, one)
        for sig, what in probs[:2]:
            ctx.violation(sig, f"{cfg} (at_most_one={one}) on {case['n']} elements x {case['m']} rankings: {what[:300]}", sub)
        if not probs:
            ctx.nontrivial({"n": case["n"], "m": case["m"], "cfg": cfg, "d": gen_digest(case["ds"])})


def gen_mod():
    from vf import gen
    return gen


def gen_digest(x):
    from vf import gen
    return gen.digest(x)


def check_case(case, ctx):
    if case.get("dcls") == "xlarge":
        return check_xlarge(case, ctx)
    ds, sch = case["ds"], case["scheme"]
    common.set_case(ctx, case)
    if ctx.index < 10 and "C" not in ctx.mode:
        batch = algos.pickled_batch(ctx)
        if ctx.index < len(batch) and batch[ctx.index][1] is not None:
            raw_p, d_p = batch[ctx.index]
            scheme_p = libx.mk_scheme(ref.PRESETS["unifying"])
            for cfg in ("BioConsert", "Borda", "Copeland", "KwikSort", "ParCons", "PickAPerm", "BioCo"):
                ctx.count("runs_on_datasets_pickled_by_another_interpreter")
                judge_run(ctx, cfg, d_p, raw_p, scheme_p, ref.PRESETS["unifying"], True, case["libseed"],
                          {"dataset_pickled_by_another_interpreter": True})
    dataset = libx.mk_dataset(ds)
    if case["libseed"] % 7 == 0 and case.get("dcls") != "huge-component":
        # the same rankings given to the Ranking constructor in other valid forms (generators, map objects, tuples)
        import random
        rf = random.Random(case["libseed"])
        st_f, d_f = call(libx.mk_dataset_forms, ds, [rf.choice(libx.FORMS) for _ in ds])
        if st_f == "ok":
            dataset = d_f
            ctx.count("datasets_built_from_other_input_forms")
    scheme = libx.mk_scheme(sch)
    ctx.count("class:" + case.get("dcls", "?"))
    any_ilp = False
    for cfg in case["configs"]:
        one = case["one"]
        seeds = [case["libseed"] + k for k in range(3)] if libx.is_random_config(cfg) else [case["libseed"]]
        for libseed in seeds:
            if judge_run(ctx, cfg, dataset, ds, scheme, sch, one, libseed, {}):
                any_ilp = True
    if any_ilp:
        ctx.count("ilp_cases")
    # two different datasets in a row whose position matrices have the same content and different shapes, through the same
    # algorithm objects
    if case["libseed"] % 4 == 0 and case.get("dcls") != "huge-component":
        import random
        A, Bt = gen_mod().reshape_twins(random.Random(case["libseed"]))
        for twin in (A, Bt):
            d_t = libx.mk_dataset(twin)
            for cfg in ("Copeland", "ParCons", "BioConsert", "Exact", "KwikSort"):
                ctx.count("runs_on_reshape_twins")
                judge_run(ctx, cfg, d_t, twin, scheme, sch, True, case["libseed"], {"reshape_twins": [A, Bt]})
    # history: the same Dataset object is mutated in place (or a dataset derived from it is), then aggregated again by the
    # same algorithm objects; what it must return is judged against the rankings the Dataset holds now
    elems = ref.universe(ds)
    if len(elems) >= 2:
        import random
        r2 = random.Random(case["libseed"])
        kind, ok = algos.mutate_in_place(dataset, ds, r2)
        st_now, now = call(libx.raw_dataset, dataset)
        if ok and st_now == "ok" and ref.universe(now):
            if kind.startswith("derived") and [ref.canon(r) for r in now] != [ref.canon(r) for r in ds]:
                ctx.count("left_to_C15_C16:source-changed-by-derived-dataset")
            ctx.count("history:" + kind)
            for cfg in case["configs"][:3]:
                ctx.count("runs_after_in_place_mutation")
                judge_run(ctx, cfg, dataset, now, scheme, sch, case["one"], case["libseed"],
                          {"after": kind, "original_ds": ds})


def judge_run(ctx, cfg, dataset, ds, scheme, sch, one, libseed, extra):
    """runs one configuration and judges what comes back; returns True if an ILP was built"""
    complete = ref.is_complete(ds)
    n = len(ref.universe(ds))
    sub = {"ds": ds, "scheme": sch, "configs": [cfg], "one": one, "libseed": libseed, **extra}
    st, cons, ilps = algos.run_config(cfg, dataset, scheme, one, libseed)
    ctx.count("runs")
    ctx.unit()
    ctx.count("runs:" + cfg)
    if st != "ok":
        if st == "exc" and algos.refusal_is_documented(cfg, cons, complete, one):
            ctx.count("refused")
            ctx.count("refused:" + cfg)
            return bool(ilps)
        ctx.violation(algos.exc_signature(PROP, cons), f"{cfg} (at_most_one={one}) did not return a "
                      f"consensus: {exc_desc(cons)}", sub, observed=type(cons).__name__,
                      expected="a well-formed consensus")
        return bool(ilps)
    ctx.count("returned")
    ctx.count("returned:" + cfg)
    probs = common.consensus_problems(cons, dataset, one)
    for sig, what in probs[:3]:
        ctx.violation(sig, f"{cfg} (at_most_one={one}): {what}", sub,
                      observed=[libx.raw_ranking(r) for r in cons.consensus_rankings][:4]
                      if hasattr(cons, "consensus_rankings") else repr(cons), expected=sorted(map(str, ref.universe(ds))))
    if not probs:
        r0 = cons.consensus_rankings[0]
        if n >= 3 and (ilps or len(r0) >= 2):
            ctx.nontrivial(sub)
            ctx.sample({**sub, "returned": [libx.raw_ranking(r) for r in cons.consensus_rankings][:3]}, key=cfg)
    return bool(ilps)


def reach(counters, tier, info):
    out = []
    need = 40 if tier == "quick" else 500
    modes = "".join(info["modes"])
    cfgs = list(libx_base_configs()) + (list(libx_cplex_configs()) if "D" in modes else [])
    for cfg in cfgs:
        v = counters.get("returned:" + cfg, 0)
        req = need
        out.append({"name": f"consensuses returned by {cfg}", "observed": v, "required": req, "ok": v >= req})
    cases = sum(v for k, v in counters.items() if k.startswith("class:"))
    v = counters.get("runs_after_in_place_mutation", 0)
    out.append({"name": "runs on a Dataset object mutated in place after a first series of runs", "observed": v,
                "required": 300 if tier == "quick" else 3000, "ok": v >= (300 if tier == "quick" else 3000)})
    for kind in ("remove_empty", "remove_elements", "rate", "derived-unified", "derived-projection"):
        v = counters.get("history:" + kind, 0)
        req = 25 if tier == "quick" else 250
        out.append({"name": f"histories whose step is {kind}", "observed": v, "required": req, "ok": v >= req})
    v = counters.get("runs_on_datasets_pickled_by_another_interpreter", 0)
    out.append({"name": "runs on string-named datasets pickled by an interpreter with another hash seed", "observed": v,
                "required": 200 if tier == "quick" else 800, "ok": v >= (200 if tier == "quick" else 800)})
    v = counters.get("datasets_built_from_other_input_forms", 0)
    out.append({"name": "datasets whose rankings were given as generators / map objects / tuples", "observed": v,
                "required": 60 if tier == "quick" else 600, "ok": v >= (60 if tier == "quick" else 600)})
    v = counters.get("runs_on_reshape_twins", 0)
    out.append({"name": "runs on reshape twins (same matrix content, other shape) in a row", "observed": v,
                "required": 500 if tier == "quick" else 5000, "ok": v >= (500 if tier == "quick" else 5000)})
    v = counters.get("xlarge_returned", 0)
    out.append({"name": "consensuses over 63-1025 elements / 40-257 rankings judged", "observed": v,
                "required": 20 if tier == "quick" else 80, "ok": v >= (20 if tier == "quick" else 80)})
    v = counters.get("ilp_cases", 0)
    out.append({"name": "datasets on which an ILP was really built", "observed": f"{v}/{cases}",
                "required": ">= 30%", "ok": cases > 0 and v >= 0.3 * cases})
    return out


def libx_base_configs():
    # kept in sync with vf/libx.py (the parent process does not import the library bridge)
    return ["Borda", "BordaBucket", "Copeland", "KwikSort", "PickAPerm", "BioConsert", "BioCo",
            "BioConsert[Borda]", "BioConsert[Copeland,KwikSort]", "BioConsert[PickAPerm]",
            "ParCons", "ParCons(BioConsert;0)", "ParCons(KwikSort;2)", "ParCons(Copeland;2)", "ParCons(Borda;0)",
            "ParCons(BioCo;2)", "Pulp", "Exact", "ExactNoOpt", "BioConsert[Pulp]"]


def libx_cplex_configs():
    return ["Cplex", "CplexNoOpt", "CplexOptim1"]
