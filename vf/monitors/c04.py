"""C04 -- the Kemeny score a consensus reports is the true score of each returned ranking."""
import math

from vf import gen, ref
from vf.core import call, exc_desc
from vf.lazy import ck, libx, common
from vf.monitors import algos, large

PROP = "C04"
TECHNIQUE = ("runtime monitoring: raw KEMENY_SCORE feature and Consensus.kemeny_score of every returned consensus compared with the reference score of every returned ranking (statement's 1e-6), shared algorithm objects, near-tie and large-score workloads; same objects again after an in-place mutation; size classes incl. scores above 2^31/1000 (vectorised reference)")
RULE = ("cases = C03's workload (datasets D1-D10 x schemes S1-S3,S6,S7 x algorithm configurations x both values of "
        "return_at_most_one_ranking x library RNG seed); for every returned consensus the raw KEMENY_SCORE feature is read "
        "first, then Consensus.kemeny_score, and both are compared with the reference score of EVERY returned ranking; "
        "non-trivial = >= 3 elements and a strictly positive true score; distinct = digest of (dataset, scheme, "
        "configuration, flag, seed)")
ASSUMPTIONS = ["reference model vf/ref.py", "the statement's tolerance 1e-6: absolute on dyadic schemes (exact arithmetic; covers the solver pool gap 1e-6), relative on decimal schemes (there a score in [-1e-6, 0) is rounding noise, not a negative score)",
               "the documented sentinel -1 in the raw feature means 'not computed yet' and is only counted"]
SUMMARY_KEYS = ["consensuses", "supplied_scores", "multi_ranking_consensuses", "zero_objective_pulp"]
THOROUGH_SCALE = 3
CRASH_IS_VIOLATION = False
TIMEOUT = {"quick": 900, "thorough": 5400}


def setup(ctx):
    algos.install_ilp_counter()


def _plan(tier, seed):
    if tier == "quick":
        return ([{"n_cases": 150, "mode": "A", "hashseed": i % 2} for i in range(6)] +
                [{"n_cases": 28, "mode": "AD", "hashseed": i % 2} for i in range(3)] +
                [{"n_cases": 80, "mode": "B"}] + [{"n_cases": 2, "mode": "A", "params": {"xlarge": prof}, "hashseed": i % 2}
                                               for i, prof in enumerate(["heavy", "wide", "tall", "cells"])])
    return ([{"n_cases": 1500, "mode": "A", "hashseed": i % 4} for i in range(10)] +
            [{"n_cases": 250, "mode": "AD", "hashseed": i % 4} for i in range(6)] +
            [{"n_cases": 1000, "mode": "B", "hashseed": i} for i in range(2)] +
            [{"n_cases": 10, "mode": "A", "params": {"xlarge": prof}, "hashseed": i}
             for i, prof in enumerate(["heavy", "wide", "tall", "cells"])])

def plan(tier, seed):
    """+ one shard running the repository's own tests under the monitors (vf/pytest_plugin.py)"""
    shards = _plan(tier, seed)
    if tier == "thorough":
        shards.append({"kind": "repotests", "n_cases": 0})
    return shards


def gen_case(rng, ctx):
    if ctx.params.get("xlarge"):
        case = large.gen_large(rng, profiles=[ctx.params["xlarge"]])
        case["dcls"] = "xlarge"
        return case
    if "D" not in ctx.mode and rng.random() < (0.004 if ctx.tier == "quick" else 0.002):
        # large scores (1e4 .. 1e5): many permutations of many elements under unit penalties -- relative tolerances,
        # float accumulation in the local search and int32 positions are only visible here
        n, m = rng.choice([(30, 40), (45, 80), (60, 151)])
        _, ds = gen.dataset(rng, cls="D1", n=n, m=m, names=list(range(n)))
        sch = [list(v) for v in ref.PRESETS[rng.choice(["unifying", "pseudodistance", "induced_half"])]]
        return {"ds": ds, "scheme": sch, "configs": ["BioConsert", "BioCo", "Borda", "Copeland", "KwikSort"],
                "one": rng.random() < 0.5, "libseed": rng.randrange(10 ** 6), "dcls": "large", "scls": "S1"}
    case = algos.gen_algo_case(rng, ctx, classes="D1 D2 D3 D3 D4 D5 D6 D7 D7 D8 D9 D10 D16 D17 D18", schemes="S1 S1 S2 S3 S3 S6 S7 S9 S10 S10 S11 S12",
                               nmax=6 if "D" in ctx.mode else 8)
    return case


def family(cfg):
    for k in ("BioConsert", "BioCo", "ParCons", "PickAPerm", "Pulp", "ExactNoOpt", "Exact", "Cplex", "Borda",
              "Copeland", "KwikSort"):
        if cfg.startswith(k):
            return k
    return cfg


def within(a, b, exact):
    """the statement's own tolerance: |reported - true| <= 1e-6 (absolute on exact-arithmetic schemes, where the only
    legitimate slack is the solver's pool gap; relative on decimal schemes, where float rounding scales with the score)"""
    fa = real(a)
    if fa is None:
        return False
    fb = float(b)
    if exact:
        return abs(fa - fb) <= 1e-6 + 1e-12
    return abs(fa - fb) <= 1e-6 * max(1.0, abs(fb))


def real(x):
    try:
        f = float(x)
    except (TypeError, ValueError):
        return None
    if math.isnan(f) or math.isinf(f):
        return None
    return f


def check_case(case, ctx):
    if case.get("dcls") == "xlarge":
        return check_xlarge(case, ctx)
    ds, sch = case["ds"], case["scheme"]
    common.set_case(ctx, case)
    dataset = libx.mk_dataset(ds)
    scheme = libx.mk_scheme(sch)
    exact = gen.is_dyadic(sch)
    uni = ref.universe(ds)
    for cfg in case["configs"]:
        for one in (True, False):
            libseed = case["libseed"]
            sub = {"ds": ds, "scheme": sch, "configs": [cfg], "one": one, "libseed": libseed}
            st, cons, ilps = algos.run_config(cfg, dataset, scheme, one, libseed)
            ctx.unit()
            if st != "ok":
                ctx.count("not_returned")      # C03 / C14 judge refusals and failures
                continue
            if case.get("dcls") == "large":
                ctx.count("large_score_consensuses")
            judge(ctx, cfg, one, cons, sub, lambda r: ref.kemeny(r, ds, sch), lambda r: common.wellformed_raw(r, uni), exact,
                  len(uni))
            # scrambled id order in departure rankings (BioConsert): some lower id placed after a higher id
            if family(cfg) in ("BioConsert", "BioCo"):
                ids = {e.value: i for e, i in dataset.mapping_elem_id.items()}
                for r in ref.unify(ds):
                    pos = ref.bucket_index(r)
                    if any(ids[x] < ids[y] and pos[x] > pos[y] for x in pos for y in pos):
                        ctx.count("bioconsert_departure_scrambled")
                        break
    # history: the Dataset object that the algorithms have just used is mutated in place (or a dataset derived from it is),
    # then aggregated again by the same algorithm objects: the score reported then is about the rankings it holds now
    if len(uni) >= 2 and case.get("dcls") != "large":
        import random
        r2 = random.Random(case["libseed"])
        kind, ok = algos.mutate_in_place(dataset, ds, r2)
        st_now, now = call(libx.raw_dataset, dataset)
        if ok and st_now == "ok" and ref.universe(now):
            uni_now = ref.universe(now)
            ctx.count("history:" + kind)
            for cfg in (["BioConsert", "BioCo"] + case["configs"])[:4]:
                one = r2.random() < 0.5
                sub = {"ds": now, "scheme": sch, "configs": [cfg], "one": one, "libseed": case["libseed"], "after": kind,
                       "original_ds": ds}
                st, cons, _ = algos.run_config(cfg, dataset, scheme, one, case["libseed"])
                ctx.unit()
                if st != "ok":
                    continue
                ctx.count("consensuses_after_in_place_mutation")
                judge(ctx, cfg, one, cons, sub, lambda r: ref.kemeny(r, now, sch), lambda r: common.wellformed_raw(r, uni_now),
                      exact, len(uni_now), tag=":after-in-place-mutation")


def check_xlarge(case, ctx):
    """size classes of vf/monitors/large.py: the reported score against the vectorised reference"""
    lc = large.Context(case)
    common.set_case(ctx, large.slim(case))
    ctx.count("xlarge:" + case["profile"])
    for cfg in large.configs_for(case, case["libseed"]):
        one = case["libseed"] % 2 == 0
        sub = large.slim(case, configs=[cfg], one=one, libseed=case["libseed"])
        st, cons = large.run(cfg, lc, one, case["libseed"])
        ctx.unit()
        if st != "ok":
            ctx.count("not_returned")
            continue
        ctx.count("xlarge_consensuses")
        if judge(ctx, cfg, one, cons, sub, lc.score, lc.wellformed, True, case["n"], tag=":large") and \
                case["profile"] == "heavy":
            ctx.count("xlarge_scores_above_2^31/1000", int(lc.score(libx.raw_ranking(cons.consensus_rankings[0])) > 2 ** 31 / 1000))


def judge(ctx, cfg, one, cons, sub, score_fn, wellformed_fn, exact, n, tag=""):
    """the reported / supplied score of one consensus against the true score of each of its rankings; True if judged"""
    F = ck.ConsensusFeature
    ctx.count("consensuses")
    fam = family(cfg)
    try:
        rankings = [libx.raw_ranking(r) for r in cons.consensus_rankings]
    except Exception:      # pylint: disable=broad-except
        ctx.count("unreadable_consensus")
        return False
    if not rankings or not all(wellformed_fn(r) for r in rankings):
        ctx.count("ill_formed_consensus_left_to_C03")
        return False
    trues = [score_fn(r) for r in rankings]
    if len(rankings) >= 2:
        ctx.count("multi_ranking_consensuses")
    ctx.count("judged:" + fam)
    if cfg == "Pulp" and trues[0] == 0:
        ctx.count("zero_objective_pulp")
    raw = cons.features.get(F.KEMENY_SCORE) if isinstance(cons.features, dict) else None
    supplied = not (isinstance(raw, (int, float)) and raw == -1)
    if supplied:
        ctx.count("supplied_scores")
        ctx.count("supplied:" + fam)
        if raw is None or real(raw) is None:
            ctx.violation(f"C04/supplied-score-absent:{fam}", f"{cfg} (at_most_one={one}) stored {raw!r} as "
                          "the Kemeny score of its consensus", sub, observed=repr(raw), expected=trues[0])
        elif not within(raw, trues[0], exact):
            ctx.violation(f"C04/supplied-score-wrong:{fam}{tag}", f"{cfg} (at_most_one={one}) supplied a score that "
                          "is not the true score of its first ranking", sub, observed=raw, expected=trues[0])
    try:
        reported = cons.kemeny_score
    except Exception as exc:      # pylint: disable=broad-except
        ctx.violation(f"C04/kemeny-score-raises:{fam}", f"{cfg}: reading kemeny_score raised {exc_desc(exc)}",
                      sub, observed=type(exc).__name__, expected=trues[0])
        return True
    rv = real(reported)
    if reported is None or rv is None:
        ctx.violation(f"C04/score-absent:{fam}", f"{cfg} (at_most_one={one}): kemeny_score is {reported!r}", sub,
                      observed=repr(reported), expected=trues[0])
        return True
    if rv < (0 if exact else -1e-6):
        ctx.violation(f"C04/score-negative:{fam}", f"{cfg} (at_most_one={one}): kemeny_score is {reported!r}",
                      sub, observed=reported, expected=trues[0])
        return True
    for k, t in enumerate(trues):
        if not within(reported, t, exact):
            sig = f"C04/reported-score-wrong:{fam}{tag}" if k == 0 else f"C04/returned-rankings-differ-in-score:{fam}{tag}"
            ctx.violation(sig, f"{cfg} (at_most_one={one}): reported score is not the true score of returned "
                          f"ranking #{k} {rankings[k] if n <= 40 else '(large)'}", sub, observed=reported, expected=t)
            break
    if n >= 3 and trues[0] > 0:
        ctx.nontrivial(sub if n <= 40 else {"n": n, "cfg": cfg, "one": one, "d": gen.digest(sub.get("ds"))})
        if n <= 40:
            ctx.sample({**sub, "returned": rankings[:3], "reported": rv, "true": [float(t) for t in trues[:3]]}, key=fam)
    return True


def reach(counters, tier, info):
    k = 0.5 if tier == "quick" else 8
    out = []
    for name, key, need in [("consensuses judged", "consensuses", 3000 * k),
                            ("scores supplied by the algorithm itself", "supplied_scores", 800 * k),
                            ("consensuses with >= 2 rankings", "multi_ranking_consensuses", 200 * k),
                            ("zero-objective Pulp cases", "zero_objective_pulp", 50 * k),
                            ("BioConsert runs whose departure rankings put a lower id after a higher id",
                             "bioconsert_departure_scrambled", 300 * k)]:
        v = counters.get(key, 0)
        out.append({"name": name, "observed": v, "required": need, "ok": v >= need})
    v = counters.get("consensuses_after_in_place_mutation", 0)
    out.append({"name": "consensuses of a Dataset object mutated in place (or whose derived dataset was) after a first series "
                "of runs", "observed": v, "required": 600 * k, "ok": v >= 600 * k})
    v = counters.get("history:remove_empty", 0)
    out.append({"name": "... where the step is remove_empty_rankings", "observed": v, "required": 30 * k, "ok": v >= 30 * k})
    v = counters.get("xlarge_consensuses", 0)
    out.append({"name": "consensuses over 63-1025 elements / 40-257 rankings judged (vectorised reference)", "observed": v,
                "required": 15, "ok": v >= 15})
    v = counters.get("xlarge_scores_above_2^31/1000", 0)
    out.append({"name": "... with a score above 2^31 / 1000", "observed": v, "required": 3, "ok": v >= 3})
    for fam in ("BioConsert", "BioCo", "PickAPerm", "Pulp", "ParCons", "Exact", "Borda", "Copeland", "KwikSort"):
        v = counters.get("judged:" + fam, 0)
        out.append({"name": f"consensuses of {fam} judged", "observed": v, "required": 60 * k, "ok": v >= 60 * k})
    for fam in ("BioConsert", "BioCo", "PickAPerm", "Pulp"):
        v = counters.get("supplied:" + fam, 0)
        out.append({"name": f"scores supplied by {fam} itself (advisory: an algorithm may leave the score to Consensus)",
                    "observed": v, "required": 60 * k, "ok": v >= 60 * k, "gating": False})
    return out
