"""C02 -- pairwise cost table matches the definition and sums to the Kemeny score."""
from vf import gen, ref, anchors
from vf.core import call, exc_desc
from vf.lazy import ck, libx, common, np

PROP = "C02"
TECHNIQUE = ('recording postcondition on the real pairwise_cost_matrix (incl. calls made inside Copeland / BioConsert / partitions), entry-wise comparison with a reference table; JIT, bounds-checked JIT and interpreted kernel with anchor-line coverage; whole tables at every threshold size (63-1025 elements) against a vectorised reference; observe - mutate in place - observe; reshape twins in a row; rankings given to the constructor in other forms (generator, map, reversed, tuple of frozensets, lists); the table asked through the three public routes with whole-number weights (reference: rankings repeated)')
RULE = ("cases = dataset (D1-D7, n<=12, few n=40) x scheme (S1-S7); the real pairwise_cost_matrix is wrapped by a "
        "recording postcondition, so the tables obtained by Copeland/BioConsert/ParCons internally are judged too; "
        "non-trivial = >= 2 elements and >= 3 of the 6 pair statuses occur with a non-zero penalty entry; "
        "distinct = digest of (dataset, scheme)")
ASSUMPTIONS = ["reference model vf/ref.py", "dyadic penalties: exact float sums", "weights left at default"]
SUMMARY_KEYS = ["contract:pairwise_cost_matrix", "internal_tables_judged", "candidates_summed"]
CRASH_IS_VIOLATION = False
FILES = ["corankco/algorithms/pairwisebasedalgorithm.py"]


def setup(ctx):
    from vf import refnp
    refnp.selftest()
    common.install_cost_matrix_recorder()
    if "C" in ctx.mode:
        from vf import cover
        cover.start(ctx.spec["repo"], FILES)


def finish(ctx):
    if "C" in ctx.mode:
        from vf import cover
        cover.flush(ctx)


def plan(tier, seed):
    if tier == "quick":
        return ([{"n_cases": 260, "mode": "A", "hashseed": i % 2} for i in range(5)] +
                [{"n_cases": 200, "mode": "B"}, {"n_cases": 90, "mode": "C"}, {"n_cases": 90, "mode": "C", "shard": 7}] +
                [{"n_cases": 13, "mode": "A", "params": {"sweep": 13 * i}, "hashseed": i} for i in range(2)])
    return ([{"n_cases": 4000, "mode": "A", "hashseed": i % 4} for i in range(10)] +
            [{"n_cases": 3000, "mode": "B", "hashseed": i} for i in range(3)] +
            [{"n_cases": 700, "mode": "C", "hashseed": i} for i in range(3)] +
            [{"n_cases": 26, "mode": "A" if i % 2 == 0 else "B", "params": {"sweep": 13 * i}, "hashseed": i} for i in range(4)])


def gen_case(rng, ctx):
    if "sweep" in ctx.params or ("C" not in ctx.mode and rng.random() < 0.01):
        # sizes at which implementations switch strategy (63 .. 1025 elements), judged against the vectorised reference;
        # the sweep shards walk through every size of gen.THRESHOLD_SIZES
        n = rng.choice(gen.THRESHOLD_SIZES)
        if "sweep" in ctx.params:
            n = gen.THRESHOLD_SIZES[(ctx.index + ctx.params["sweep"]) % len(gen.THRESHOLD_SIZES)]
        ds, base = gen.large_dataset(rng, n)
        scls, sch = gen.scheme(rng, "S1 S1 S2 S3 S15")
        return {"ds": ds, "scheme": sch, "dcls": "large", "scls": scls, "n": n,
                "cands": [gen.large_candidate(rng, base)[1] for _ in range(2)]}
    big = rng.random() < 0.04 and "C" not in ctx.mode
    cls, ds = gen.dataset(rng, classes="D1 D2 D3 D3 D4 D5 D6 D7 D7 D9 D21 D14", nmax=40 if big else (7 if "C" in ctx.mode else 12),
                          mmax=8)
    ds = libx.normalise_raw(ds)
    scls, sch = gen.scheme(rng, "S1 S2 S3 S3 S3 S4 S6 S7")
    cands = [gen.candidate(rng, ds, "random")[1] for _ in range(2)]
    has_empty = any(not r for r in ds)
    mutate = rng.choice(["empty", "empty", "elements", "rate"] if has_empty else ["elements", "rate", "empty", "none"])
    uni = ref.universe(ds)
    return {"ds": ds, "scheme": sch, "cands": cands, "dcls": cls, "scls": scls, "k": rng.choice([0.5, 2.0, 3.0]),
            "alg": rng.choice(["Copeland", "BioConsert", "parfront", "none"]), "mutate": mutate,
            "victims": [e for e in uni if rng.random() < 0.3][:max(0, len(uni) - 1)],
            "rate": rng.choice([0.3, 0.5, 0.6, 1.0])}


def compare_table(ctx, case, M, table, ids, exact, via):
    """M: ndarray n x n x 3 indexed by ids; table: reference indexed by element"""
    n = len(ids)
    if getattr(M, "shape", None) != (n, n, 3):
        ctx.violation("C02/table-shape", f"table of shape {getattr(M, 'shape', None)} for {n} elements ({via})",
                      case, observed=str(getattr(M, "shape", None)), expected=[n, n, 3])
        return False
    inv = {i: e for e, i in ids.items()}
    ok = True
    for i in range(n):
        for j in range(n):
            want = table[inv[i]][inv[j]]
            for k in range(3):
                if not common.close(M[i][j][k], want[k], exact):
                    what = ["before", "after", "tied"][k]
                    sig = "C02/diagonal-not-zero" if i == j else f"C02/entry-differs-{what}"
                    ctx.violation(sig, f"cost table entry ({inv[i]!r},{inv[j]!r}) '{what}' differs from the "
                                  f"definition ({via})", case, observed=float(M[i][j][k]), expected=want[k])
                    return False
    return ok


def check_large(case, ctx):
    """63 .. 1025 elements: the whole table against the vectorised reference (vf/refnp.py), from positions and from bucket
    ids; mirror consistency; selected entries of two candidates add up to their Kemeny scores"""
    from vf import refnp
    ds, sch = case["ds"], case["scheme"]
    slim = {"ds": ds, "scheme": sch, "n": case["n"]}
    common.set_case(ctx, slim)
    dataset = libx.mk_dataset(ds)
    scheme = libx.mk_scheme(sch)
    ctx.count("class:large")
    ctx.setadd("large_sizes", case["n"])
    inv = {i: e.value for e, i in dataset.mapping_elem_id.items()}
    elems = [inv[i] for i in range(len(inv))]
    want = refnp.cost_table(ds, sch, elems)
    PBA = ck.algorithms.PairwiseBasedAlgorithm
    tables = []
    for how, getter in (("positions", dataset.get_positions), ("bucket ids", dataset.get_bucket_ids)):
        st, M = call(lambda g=getter: PBA.pairwise_cost_matrix(g(), scheme))
        if st == "exc":
            ctx.violation("C02/table-raises", f"pairwise_cost_matrix({how}) raised on {case['n']} elements: " + exc_desc(M), slim)
            return
        ctx.count("large_tables_judged")
        if getattr(M, "shape", None) != want.shape:
            ctx.violation("C02/table-shape", f"table of shape {getattr(M, 'shape', None)} for {case['n']} elements ({how})",
                          slim, observed=str(getattr(M, "shape", None)), expected=list(want.shape))
            return
        if not np.array_equal(M, want):
            bad = np.argwhere(M != want)
            i, j, k = (int(v) for v in bad[0])
            what = ["before", "after", "tied"][k]
            sig = "C02/diagonal-not-zero" if i == j else f"C02/entry-differs-{what}"
            ctx.violation(sig, f"{case['n']} elements: {len(bad)} entries differ from the definition ({how}); first: "
                          f"({elems[i]!r},{elems[j]!r}) '{what}'", slim, observed=float(M[i][j][k]), expected=float(want[i][j][k]))
            return
        tables.append(M)
    if not np.array_equal(tables[0][:, :, 0], tables[0][:, :, 1].T) or not np.array_equal(tables[0][:, :, 2], tables[0][:, :, 2].T):
        ctx.violation("C02/not-mirror-consistent", f"{case['n']} elements: before(x,y) != after(y,x) or tied asymmetric", slim)
    for cand in case["cands"]:
        c = refnp.candidate_positions(cand, elems)
        tot = refnp.score_from_table(c, tables[0])
        expected = refnp.kemeny(cand, ds, sch)
        ctx.count("candidates_summed")
        if tot != expected:
            ctx.violation("C02/selected-entries-do-not-sum-to-score", f"{case['n']} elements: the entries selected by a "
                          "candidate do not add up to its Kemeny score (definition)", slim, observed=tot, expected=expected)
    common.COST_CALLS.clear()      # the recorder keeps copies of the tables: tens of MB each at these sizes
    ctx.nontrivial({"n": case["n"], "scheme": sch, "d": gen.digest(ds)})


def check_case(case, ctx):
    if case.get("dcls") == "large":
        common.COST_CALLS.clear()
        return check_large(case, ctx)
    ds, sch = case["ds"], case["scheme"]
    common.set_case(ctx, case)
    dataset = libx.mk_dataset(ds)
    if gen.digest(ds)[1] in "012":
        # the same rankings given to the Ranking constructor in other valid forms (generators, map objects, tuples)
        import random
        rf = random.Random(gen.digest(ds))
        st_f, d_f = call(libx.mk_dataset_forms, ds, [rf.choice(libx.FORMS) for _ in ds])
        if st_f == "ok":
            dataset = d_f
            ctx.count("datasets_built_from_other_input_forms")
    scheme = libx.mk_scheme(sch)
    exact = gen.is_dyadic(sch)
    ctx.count("class:" + case.get("dcls", "?"))
    elems = ref.universe(ds)
    ids = {e.value: i for e, i in dataset.mapping_elem_id.items()}
    table = ref.cost_table(ds, sch, elems)
    PBA = ck.algorithms.PairwiseBasedAlgorithm
    st, M = call(PBA.pairwise_cost_matrix, dataset.get_positions(), scheme)
    if st == "exc":
        ctx.violation("C02/table-raises", "pairwise_cost_matrix raised " + exc_desc(M), case)
        return
    ok = compare_table(ctx, case, M, table, ids, exact, "positions")
    st2, M2 = call(PBA.pairwise_cost_matrix, dataset.get_bucket_ids(), scheme)
    if st2 == "exc":
        ctx.violation("C02/table-raises", "pairwise_cost_matrix(bucket ids) raised " + exc_desc(M2), case)
        return
    if ok and not np.array_equal(M, M2):
        ctx.violation("C02/positions-vs-bucket-ids-differ", "table from positions differs from table from bucket ids",
                      case, observed=M2.tolist(), expected=M.tolist())
    # a second request on the same positions under a proportional scheme (k * scheme) must be k * table
    k = case.get("k", 3.0)
    sch_k = gen.scale(sch, k)
    st4, Mk = call(PBA.pairwise_cost_matrix, dataset.get_positions(), libx.mk_scheme(sch_k))
    ctx.count("proportional_second_calls")
    if st4 == "ok" and ok:
        compare_table(ctx, {**case, "scheme": sch_k, "after_scheme": sch}, Mk, ref.cost_table(ds, sch_k, elems), ids,
                      gen.is_dyadic(sch_k), f"second call on the same positions under {k} x the scheme")
    # the optional `weights` argument, through the three public routes to the table: with whole-number weights the table is,
    # by definition ("summed over the input rankings"), that of the dataset in which ranking i occurs weights[i] times
    if ok and gen.digest(ds)[2] in "01234":
        import random
        rw = random.Random(gen.digest(ds))
        w = [rw.choice([1, 1, 2, 3]) for _ in ds]
        if len(set(w)) == 1:
            w[rw.randrange(len(w))] += 1
        repeated = [r for r, k_ in zip(ds, w) for _ in range(k_)]
        table_w = ref.cost_table(repeated, sch, elems)
        warr = np.array(w, dtype=float)
        ctx.count("weighted_tables")
        for route, fn in (("pairwise_cost_matrix", lambda: PBA.pairwise_cost_matrix(dataset.get_positions(), scheme, warr)),
                          ("graph_of_elements", lambda: PBA.graph_of_elements(dataset.get_positions(), scheme, warr)[1]),
                          ("graph_of_elements_with_robust_arcs",
                           lambda: PBA.graph_of_elements_with_robust_arcs(dataset.get_bucket_ids(), scheme, warr)[1])):
            stw, Mw = call(fn)
            if stw == "exc":
                ctx.violation("C02/table-raises", f"{route} with weights {w} raised " + exc_desc(Mw), {**case, "weights": w})
            else:
                compare_table(ctx, {**case, "weights": w}, Mw, table_w, ids, exact, f"{route} with whole-number weights {w} "
                              "(reference: each ranking repeated that many times)")
    # mirror consistency on the library's own table
    n = len(elems)
    for i in range(n):
        for j in range(n):
            if M[i][j][0] != M[j][i][1] or M[i][j][2] != M[j][i][2]:
                ctx.violation("C02/not-mirror-consistent", f"before({i},{j}) != after({j},{i}) or tied asymmetric",
                              case, observed=[list(M[i][j]), list(M[j][i])])
                break
        else:
            continue
        break
    # candidates: selected entries add up to the Kemeny score
    for cand in case["cands"]:
        cpos = ref.bucket_index(cand)
        tot = 0.0
        for a in range(len(elems)):
            for b in range(a + 1, len(elems)):
                x, y = elems[a], elems[b]
                i, j = ids[x], ids[y]
                k = 0 if cpos[x] < cpos[y] else (1 if cpos[x] > cpos[y] else 2)
                tot += float(M[i][j][k])
        expected = ref.kemeny(cand, ds, sch)
        st3, sc = call(ck.KemenyComputingFactory(scheme).get_kemeny_score, libx.mk_ranking(cand), dataset)
        ctx.count("candidates_summed")
        if not common.close(tot, expected, exact, 1e-9):
            ctx.violation("C02/selected-entries-do-not-sum-to-score",
                          "the entries selected by a candidate do not add up to its Kemeny score (definition)",
                          {**case, "cand": cand}, observed=tot, expected=expected)
        elif st3 == "ok" and not common.close(sc, ref.fr(tot) if exact else expected, exact, 1e-9):
            ctx.violation("C02/selected-entries-differ-from-library-score",
                          "the entries selected by a candidate differ from get_kemeny_score",
                          {**case, "cand": cand}, observed=tot, expected=sc)
    # internal callers: run an algorithm / partition and judge every table it obtained
    common.COST_CALLS.clear()
    alg = case.get("alg", "none")
    if alg == "parfront":
        call(ck.OrderedPartition.parfront_partition, dataset, scheme)
    elif alg != "none":
        call(libx.make_algorithm(alg).compute_consensus_rankings, dataset, scheme, True)
    for positions, s_raw, result in common.COST_CALLS:
        t2 = common.table_from_positions(positions, s_raw)
        ctx.count("internal_tables_judged")
        nn = positions.shape[0]
        compare_table(ctx, case, result, t2, {i: i for i in range(nn)}, gen.is_dyadic(s_raw), "internal call by " + alg)
    common.COST_CALLS.clear()
    # observe -> mutate the Dataset in place -> observe: the table must follow the rankings the Dataset now holds
    # (the mutators themselves are judged by C16; here the Dataset's own public view after the mutation is the input)
    mut = case.get("mutate", "none")
    if mut != "none":
        if mut == "empty":
            stm, _ = call(dataset.remove_empty_rankings)
        elif mut == "elements":
            stm, _ = call(dataset.remove_elements, {ck.Element(v) for v in case.get("victims", [])})
        else:
            stm, _ = call(dataset.remove_elements_rate_presence_lower_than, case.get("rate", 0.5))
        st5, ds_now = call(libx.raw_dataset, dataset)
        if stm == "ok" and st5 == "ok" and ref.universe(ds_now):
            changed = [ref.canon(r) for r in ds_now] != [ref.canon(r) for r in ds]
            ctx.count("tables_after_in_place_mutation")
            if changed:
                ctx.count("tables_after_in_place_mutation:changed:" + mut)
            elems_now = ref.universe(ds_now)
            ids_now = {e.value: i for e, i in dataset.mapping_elem_id.items()}
            table_now = ref.cost_table(ds_now, sch, elems_now)
            if set(ids_now) == set(elems_now):
                for how, getter in (("positions", dataset.get_positions), ("bucket ids", dataset.get_bucket_ids)):
                    st6, M6 = call(lambda g=getter: PBA.pairwise_cost_matrix(g(), scheme))
                    if st6 == "exc":
                        ctx.violation("C02/table-raises", f"pairwise_cost_matrix({how}) raised after {mut} removal in place: "
                                      + exc_desc(M6), {**case, "ds_after_mutation": ds_now})
                    else:
                        compare_table(ctx, {**case, "ds_after_mutation": ds_now}, M6, table_now, ids_now, exact,
                                      f"{how}, after an in-place removal ({mut}) on a Dataset whose table had been built")
    # two different datasets in a row whose position matrices have the same content and different shapes
    if gen.digest(ds)[0] in "0123":
        import random
        A, Bt = gen.reshape_twins(random.Random(gen.digest(ds)))
        for which, twin in (("first", A), ("second", Bt)):
            d_t = libx.mk_dataset(twin)
            el_t = ref.universe(twin)
            ids_t = {e.value: i for e, i in d_t.mapping_elem_id.items()}
            st7, M7 = call(PBA.pairwise_cost_matrix, d_t.get_positions(), scheme)
            ctx.count("reshape_twin_tables")
            if st7 == "exc":
                ctx.violation("C02/table-raises", f"pairwise_cost_matrix raised on the {which} of two reshape twins: "
                              + exc_desc(M7), {**case, "twins": [A, Bt]})
                break
            if not compare_table(ctx, {**case, "ds": twin, "twins": [A, Bt]}, M7, ref.cost_table(twin, sch, el_t), ids_t, exact,
                                 f"{which} of two datasets in a row whose position matrices have the same content and "
                                 "different shapes"):
                break
    # reach bookkeeping: which statuses occur with non-zero penalties, in which id order
    B, T = sch
    seen = set()
    rposs = [ref.bucket_index(r) for r in ds]
    for x in elems:
        for y in elems:
            if ids[x] < ids[y]:
                for rpos in rposs:
                    s = ref.status(x, y, rpos)
                    if B[s] != 0 or T[s] != 0 or (s in (3, 4) and (B[3] != 0 or B[4] != 0)):
                        seen.add(s)
    for s in seen:
        ctx.count(f"status:{s}")
    if len(elems) >= 2 and len(seen) >= 3:
        ctx.nontrivial({"ds": ds, "scheme": sch})
        ctx.sample({"ds": ds, "scheme": sch, "table_row0": [[float(v) for v in table[elems[0]][y]] for y in elems]},
                   key=case.get("dcls"))


def reach(counters, tier, info):
    out = []
    for s in range(6):
        v = counters.get(f"status:{s}", 0)
        out.append({"name": f"pair status {s} seen (id order x<y) with a non-zero penalty", "observed": v,
                    "required": 50, "ok": v >= 50})
    vw = counters.get("weighted_tables", 0)
    out.append({"name": "tables asked with whole-number weights through the three public routes", "observed": vw,
                "required": 100 if tier == "quick" else 4000, "ok": vw >= (100 if tier == "quick" else 4000)})
    v = counters.get("contract:pairwise_cost_matrix", 0)
    out.append({"name": "recording postcondition evaluations", "observed": v, "required": 500, "ok": v >= 500})
    v = counters.get("internal_tables_judged", 0)
    out.append({"name": "tables obtained by internal callers judged", "observed": v, "required": 200, "ok": v >= 200})
    v = counters.get("tables_after_in_place_mutation", 0)
    out.append({"name": "tables rebuilt after an in-place removal on the same Dataset", "observed": v, "required": 300,
                "ok": v >= 300})
    for mut in ("empty", "elements", "rate"):
        v = counters.get("tables_after_in_place_mutation:changed:" + mut, 0)
        out.append({"name": f"... where the removal ({mut}) changed the rankings", "observed": v, "required": 25,
                    "ok": v >= 25})
    v = counters.get("datasets_built_from_other_input_forms", 0)
    out.append({"name": "datasets whose rankings were given as generators / map objects / tuples", "observed": v,
                "required": 100, "ok": v >= 100})
    v = counters.get("reshape_twin_tables", 0)
    out.append({"name": "tables of reshape twins (same matrix content, other shape) built in a row", "observed": v,
                "required": 300, "ok": v >= 300})
    v = counters.get("large_tables_judged", 0)
    out.append({"name": "tables over 63-1025 elements judged entirely (vectorised reference)", "observed": v, "required": 40,
                "ok": v >= 40})
    v = len(set(info["sets"].get("large_sizes", ())) & set(gen.THRESHOLD_SIZES))
    out.append({"name": "distinct sizes among gen.THRESHOLD_SIZES met", "observed": v, "required": len(gen.THRESHOLD_SIZES),
                "ok": v >= len(gen.THRESHOLD_SIZES)})
    out += anchors.reach(info, [(FILES[0], 24, 96, "jitted triple loop (interpreted mode)")])
    return out
