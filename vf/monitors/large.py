"""
Size classes shared by the algorithm-level properties: datasets of 63 .. 3000 elements and up to 257 rankings, judged against the
vectorised reference vf/refnp.py.  The seeded changes of rounds d and f showed that realistic defects hide behind sizes:
a fast path from 500 elements on, a tile of 64, a cache for matrices of 10 000 cells, an int32 that holds a score up to
2^31 / 1000, a printed form abbreviated beyond 1000 items, a tolerance that bites once totals reach 1e5.

Profiles (gen_large):
  wide   63 .. 1025 elements (gen.THRESHOLD_SIZES), 1-5 rankings ("sweep": every one of these sizes in turn)
  tall   20 .. 100 elements, 40 .. 257 rankings
  heavy  300 elements x 120 independent permutations: Kemeny scores above 2^31 / 1000
  cells  incomplete datasets of at least 10 000 (element, ranking) cells
  huge   3000 elements x 64 rankings (one order, a third of the neighbours tied in all rankings but one or two): position
         totals above 1e5, means that differ by 1/64 on values of 2500+
"""
from vf import gen, ref
from vf.core import call, exc_desc
from vf.lazy import ck, libx, common, np

PROFILES = ["wide", "wide", "wide", "tall", "heavy", "cells", "cells"]


def gen_large(rng, profiles=None, schemes="S1 S1 S2 S3 S15", index=None):
    """index: position of the case in its shard -- the profile 'sweep' walks through gen.THRESHOLD_SIZES with it, so that a
    shard of len(gen.THRESHOLD_SIZES) cases meets every size"""
    profile = rng.choice(profiles or PROFILES)
    if profile == "sweep":
        n, m, style = gen.THRESHOLD_SIZES[(index or 0) % len(gen.THRESHOLD_SIZES)], None, None
    elif profile == "wide":
        n, m, style = rng.choice(gen.THRESHOLD_SIZES), None, None
    elif profile == "tall":
        n, m, style = rng.choice([20, 30, 64, 65, 100]), rng.choice([40, 100, 127, 128, 129, 200, 255, 256, 257]), None
    elif profile == "heavy":
        n, m, style = 300, 120, "random"
    elif profile == "cells":
        n, m = rng.choice([(100, 100), (128, 80), (500, 20), (101, 100)])
        style = "near-incomplete"
    else:
        n, m, style = 3000, 64, "mostly-tied-pairs"
    ds, base = gen.large_dataset(rng, n, m, style)
    scls, sch = gen.scheme(rng, schemes)
    if profile == "heavy":
        # unit penalties (or their double): the scores must exceed 2^31 / 1000
        scls, sch = "S2", gen.scale(ref.PRESETS[rng.choice(["unifying", "pseudodistance"])], rng.choice([1.0, 2.0]))
    return {"ds": ds, "scheme": sch, "scls": scls, "n": n, "m": len(ds), "profile": profile, "dcls": "large", "base": base,
            "libseed": rng.randrange(10 ** 6)}


def slim(case, **extra):
    """what goes into a witness: everything needed to rebuild the case, nothing else"""
    return {"ds": case["ds"], "scheme": case["scheme"], "n": case["n"], "m": case["m"], "profile": case["profile"], **extra}


class Context:
    """library objects and reference data of one large case"""

    def __init__(self, case):
        from vf import refnp
        self.refnp = refnp
        self.case = case
        self.ds, self.sch = case["ds"], case["scheme"]
        self.dataset = libx.mk_dataset(self.ds)
        self.scheme = libx.mk_scheme(self.sch)
        inv = {i: e.value for e, i in self.dataset.mapping_elem_id.items()}
        self.elems = [inv[i] for i in range(len(inv))]
        self.complete = ref.is_complete(self.ds)
        self._table = None

    @property
    def table(self):
        if self._table is None:
            self._table = self.refnp.cost_table(self.ds, self.sch, self.elems)
        return self._table

    def score(self, raw_ranking):
        return self.refnp.score_from_table(self.refnp.candidate_positions(raw_ranking, self.elems), self.table)

    def wellformed(self, raw_ranking):
        flat = [e for b in raw_ranking for e in b]
        return all(len(b) > 0 for b in raw_ranking) and len(flat) == len(set(flat)) and set(flat) == set(self.elems)


def configs_for(case, rng_seed):
    """configurations that stay affordable at the case's size"""
    import random
    r = random.Random(rng_seed)
    base = ["Borda", "BordaBucket", "Copeland", "KwikSort", "BioCo", "BioConsert[Copeland]", "BioConsert[Borda]"]
    if case["profile"] in ("wide", "cells") and case["m"] <= 20:
        # (never the default ParCons: it hands every component of up to 80 elements to the ILP solver, hours of CBC on one
        # component of 64 elements)
        base += ["PickAPerm", "BioConsert", "ParCons(Copeland;2)", "ParCons(BioCo;2)"]
    if case["profile"] == "cells":
        base += ["BioConsert"]
    return r.sample(base, min(4, len(base)))


def run(cfg, lc, one, libseed):
    libx.seed_library(libseed)
    st, alg = call(libx.make_algorithm, cfg)
    if st == "exc":
        return st, alg
    return call(alg.compute_consensus_rankings, lc.dataset, lc.scheme, one)


def refusal_expected(cfg, exc, lc):
    return isinstance(exc, libx.DOCUMENTED_REFUSALS) and not lc.complete


def np_module():
    return np
