"""C12 -- Borda orders elements by mean positional score, per the documented variants."""
import random

from vf import gen, ref
from vf.core import exc_desc
from vf.lazy import ck, libx, common
from vf.monitors import algos, large

PROP = "C12"
TECHNIQUE = ('runtime monitoring of Borda (both variants) against exact rational means; metamorphic monitors (permuted rankings, renamed elements); aggregation again after an in-place mutation; size classes up to 3000 x 64 (position totals above 1e5) against exact means; the bench_mode route')
RULE = ("cases = dataset (D1-D7, D12 names; n<=9) x scheme (the four accepted families x positive multipliers, S5 look-"
        "alikes proportional on one vector only, other schemes) x variant (number of elements strictly before / bucket "
        "index); oracle = exact rational means; metamorphic monitors on the same run: permuting the rankings and renaming "
        "the elements leave the result unchanged; non-trivial = >= 3 elements and (a tie in the output or an incomplete "
        "input); distinct = digest of (dataset, scheme, variant)")
ASSUMPTIONS = ["reference model vf/ref.py", "means compared exactly (Fractions) -- float means of small integers are equal "
               "iff the rationals are equal for n,m in the explored range"]
SUMMARY_KEYS = ["accepted", "refusals_expected", "outputs_with_tie", "metamorphic_checks"]
CRASH_IS_VIOLATION = False
FAMILIES = ["unifying", "unifying_half", "induced", "induced_half"]


def plan(tier, seed):
    if tier == "quick":
        return [{"n_cases": 420, "mode": "A", "hashseed": i % 3} for i in range(8)] + \
               [{"n_cases": k, "mode": "A", "params": {"xlarge": prof}, "hashseed": i % 2}
                for i, (prof, k) in enumerate([("wide", 6), ("tall", 6), ("cells", 5), ("huge", 1)])]
    return [{"n_cases": 6000, "mode": "A", "hashseed": i % 4} for i in range(12)] + \
           [{"n_cases": k, "mode": "A", "params": {"xlarge": prof}, "hashseed": i % 4}
            for i, (prof, k) in enumerate([("sweep", 26), ("tall", 20), ("cells", 20), ("huge", 2), ("huge", 2)])]


def family_lookalike(rng):
    name = rng.choice(FAMILIES)
    p = ref.PRESETS[name]
    k = rng.choice([1.0] + gen.SCALES)
    k2 = rng.choice([x for x in [1.0] + gen.SCALES if x != k])
    return [[v * k for v in p[0]], [v * k2 for v in p[1]]]


def gen_case(rng, ctx):
    if ctx.params.get("xlarge"):
        case = large.gen_large(rng, profiles=[ctx.params["xlarge"]], index=ctx.index)
        name = rng.choice(FAMILIES)
        case["scheme"] = gen.scale(ref.PRESETS[name], rng.choice([1.0, 1.0, 2.0, 0.5, 3.0]))
        case["dcls"], case["scls"], case["bucket_id"] = "xlarge", "family:" + name, rng.random() < 0.5
        return case
    cls, ds = gen.dataset(rng, classes="D1 D2 D2 D3 D3 D4 D5 D6 D7 D8 D22 D22 D17 D14", nmax=9, mmax=7)
    ds = libx.normalise_raw(ds)
    which = rng.random()
    if which < 0.55:
        name = rng.choice(FAMILIES)
        scls, sch = "family:" + name, gen.scale(ref.PRESETS[name], rng.choice([1.0, 1.0] + gen.SCALES + gen.ODD_SCALES))
    elif which < 0.75:
        scls, sch = "family-lookalike", family_lookalike(rng)
    else:
        scls, sch = gen.scheme(rng, "S1 S3 S4 S5")
    return {"ds": ds, "scheme": sch, "dcls": cls, "scls": scls, "bucket_id": rng.random() < 0.5,
            "perm_seed": rng.randrange(10 ** 6)}


def check_xlarge(case, ctx):
    """size classes of vf/monitors/large.py (incl. 3000 elements x 40 rankings: position totals above 1e5): the consensus
    against exact mean scores"""
    lc = large.Context(case)
    ubi = case["bucket_id"]
    sub = large.slim(case, bucket_id=ubi)
    common.set_case(ctx, sub)
    fam = ref.borda_family(case["scheme"])
    st, cons = large.run("BordaBucket" if ubi else "Borda", lc, True, 0)
    if st != "ok":
        ctx.violation(f"C12/raises-{type(cons).__name__}", f"Borda did not answer on {case['n']} elements x {case['m']} rankings "
                      f"(family {fam}): {exc_desc(cons)}", sub)
        return
    ctx.count("accepted")
    ctx.count("xlarge_judged")
    ctx.count("xlarge:" + case["profile"])
    means = lc.refnp.borda(lc.ds, lc.elems, ubi, fam == "unified")
    order = sorted(set(means))
    expected = [[e for e, mval in zip(lc.elems, means) if mval == val] for val in order]
    if max(m_.numerator for m_ in means) >= 10 ** 5 or case["profile"] == "huge":
        ctx.count("xlarge_position_totals_above_1e5")
    got = libx.raw_ranking(cons.consensus_rankings[0])
    if ref.canon(got) != ref.canon(expected):
        k = next((i for i, (a, b) in enumerate(zip(got, expected)) if set(a) != set(b)), min(len(got), len(expected)))
        how = "unified" if fam == "unified" else "skipped"
        ctx.violation(f"C12/not-ordered-by-mean-score:{how}:{'bucket-id' if ubi else 'elements-before'}",
                      f"{case['n']} elements x {case['m']} rankings: the consensus ({len(got)} buckets) differs from the "
                      f"ranking by increasing mean score ({len(expected)} buckets) from bucket {k} on; means there: "
                      f"{[str(means[lc.elems.index(e)]) for b in expected[k:k + 2] for e in b][:4]}", sub,
                      observed=got[k:k + 2], expected=expected[k:k + 2])
        return
    if any(len(b) >= 2 for b in got):
        ctx.count("outputs_with_tie")
    ctx.nontrivial({"n": case["n"], "m": case["m"], "d": gen.digest(case["ds"]), "ubi": ubi, "fam": fam})


def check_case(case, ctx):
    if case.get("dcls") == "xlarge":
        return check_xlarge(case, ctx)
    ds, sch, ubi = case["ds"], case["scheme"], case["bucket_id"]
    common.set_case(ctx, case)
    dataset = libx.mk_dataset(ds)
    scheme = libx.mk_scheme(sch)
    complete = ref.is_complete(ds)
    elems = ref.universe(ds)
    fam = ref.borda_family(sch)
    sub = {"ds": ds, "scheme": sch, "bucket_id": ubi}
    cfg = "BordaBucket" if ubi else "Borda"
    must_refuse = (not complete) and fam is None
    st, cons, _ = algos.run_config(cfg, dataset, scheme, True, 0)
    ctx.count(f"cell:{fam}:{ubi}:{'complete' if complete else 'incomplete'}")
    if must_refuse:
        ctx.count("refusals_expected")
        if case["scls"] == "family-lookalike":
            ctx.count("lookalike_refusals_expected")
        if st == "ok":
            ctx.violation("C12/incomplete-dataset-accepted-outside-the-four-families", "Borda accepted an incomplete "
                          "dataset under a scheme outside its four documented families", sub,
                          observed=libx.raw_ranking(cons.consensus_rankings[0]), expected="ScoringSchemeNotHandledException")
        elif type(cons).__name__ != "ScoringSchemeNotHandledException":
            ctx.violation(f"C12/refusal-with-{type(cons).__name__}", "refusal with an undocumented exception: "
                          + exc_desc(cons), sub)
        else:
            ctx.count("refusals_observed")
        return
    if st != "ok":
        sig = "C12/acceptable-input-refused" if type(cons).__name__ == "ScoringSchemeNotHandledException" \
            else f"C12/raises-{type(cons).__name__}"
        ctx.violation(sig, f"Borda did not answer ({'complete' if complete else 'incomplete'} data, family {fam}): "
                      + exc_desc(cons), sub)
        return
    ctx.count("accepted")
    try:
        got = libx.raw_ranking(cons.consensus_rankings[0])
    except Exception:      # pylint: disable=broad-except
        return
    expected, mean = ref.borda(ds, sch, ubi)
    if ref.canon(got) != ref.canon(expected):
        how = "unified" if fam == "unified" else "skipped"
        ctx.violation(f"C12/not-ordered-by-mean-score:{how}:{'bucket-id' if ubi else 'elements-before'}",
                      f"Borda returned {got}; by increasing mean score ({how} treatment of unranked elements) the "
                      f"ranking is {expected}", sub, observed=got, expected=expected)
        return
    if any(len(b) >= 2 for b in got):
        ctx.count("outputs_with_tie")
    # metamorphic: permute rankings, rename elements
    r2 = random.Random(case["perm_seed"])
    perm = list(ds)
    r2.shuffle(perm)
    names = list(elems)
    shuffled = list(names)
    r2.shuffle(shuffled)
    ren = dict(zip(names, shuffled))
    ds2 = [[[ren[e] for e in b] for b in r] for r in perm]
    st2, cons2, _ = algos.run_config(cfg, libx.mk_dataset(ds2), scheme, True, 0)
    ctx.count("metamorphic_checks")
    if st2 != "ok":
        ctx.violation("C12/renamed-permuted-dataset-refused", "the same dataset with permuted rankings and renamed elements "
                      "was not accepted: " + exc_desc(cons2), {**sub, "ds2": ds2})
    else:
        got2 = libx.raw_ranking(cons2.consensus_rankings[0])
        want2 = [[ren[e] for e in b] for b in got]
        if ref.canon(got2) != ref.canon(want2):
            ctx.violation("C12/result-depends-on-ranking-order-or-names", f"permuting the rankings / renaming the elements "
                          f"changed the result: {got2} vs expected {want2}", {**sub, "ds2": ds2}, observed=got2,
                          expected=want2)
    # history: the same Dataset object is mutated, then aggregated again by the same algorithm object
    if len(elems) >= 3:
        victim = r2.choice(elems)
        ds3 = [[[e for e in b if e != victim] for b in r] for r in ds]
        ds3 = [[b for b in r if b] for r in ds3]
        ds3 = [r for r in ds3 if r]
        if ds3 and len(ref.universe(ds3)) >= 2 and ref.universe(libx.normalise_raw(ds3)) == ref.universe(ds3):
            try:
                dataset.remove_elements({ck.Element(victim)})
                mutated = True
            except Exception:      # pylint: disable=broad-except
                mutated = False
            if mutated and (ref.is_complete(ds3) or ref.borda_family(sch) is not None):
                st3, cons3, _ = algos.run_config(cfg, dataset, scheme, True, 0)
                ctx.count("borda_after_mutation")
                want3, _m = ref.borda(ds3, sch, ubi)
                if st3 == "ok":
                    got3 = libx.raw_ranking(cons3.consensus_rankings[0])
                    if ref.canon(got3) != ref.canon(want3):
                        ctx.violation("C12/not-ordered-by-mean-score:after-removing-an-element", f"after remove_elements("
                                      f"{victim!r}) on the same Dataset object Borda returned {got3}, expected {want3}",
                                      {**sub, "removed": victim}, observed=got3, expected=want3)
    if len(elems) >= 3 and (any(len(b) >= 2 for b in got) or not complete):
        ctx.nontrivial(sub)
        ctx.sample({**sub, "returned": got, "means": {str(k): float(v) for k, v in mean.items()}},
                   key=f"{fam}{ubi}{complete}")


def reach(counters, tier, info):
    k = 0.5 if tier == "quick" else 20
    out = []
    for fam in ("unified", "skipped"):
        for ubi in (False, True):
            for comp in ("complete", "incomplete"):
                v = counters.get(f"cell:{fam}:{ubi}:{comp}", 0)
                out.append({"name": f"family {fam} x bucket_id={ubi} x {comp}", "observed": v, "required": 100 * k,
                            "ok": v >= 100 * k})
    for name, key, need in [("datasets of 63-3000 elements / 40-257 rankings judged against exact mean scores", "xlarge_judged",
                             14 if tier == "quick" else 50),
                            ("... of which with position totals above 1e5", "xlarge_position_totals_above_1e5", 1 if tier == "quick" else 3),
                            ("outputs with a tie", "outputs_with_tie", 300 * k),
                            ("expected refusals", "refusals_expected", 100 * k),
                            ("expected refusals of look-alike schemes", "lookalike_refusals_expected", 50 * k),
                            ("metamorphic checks", "metamorphic_checks", 1000 * k),
                            ("Borda runs on a Dataset object mutated after a first run", "borda_after_mutation", 500 * k)]:
        v = counters.get(key, 0)
        out.append({"name": name, "observed": v, "required": need, "ok": v >= need})
    return out
