"""C18 -- rankings and datasets survive a round trip through text and files; the parser is total."""
import os
import random
import sys

from vf import gen, ref, anchors
from vf.core import call, exc_desc
from vf.lazy import ck, libx, common

PROP = "C18"
TECHNIQUE = ('runtime monitoring of parsing / writing: round trips judged by reference equality, totality on random and grammar-mutated texts under a line-event step budget (sys.monitoring), scanner line coverage; atheris (libFuzzer) in the thorough tier; file round trips of rankings of 80-2000 elements (lines of 1000+ characters, blanks in names); long damaged texts parsed by a separate interpreter under a wall-clock bound (a hang inside C code yields no line event); well-formed texts naming an element twice')
RULE = ("(1) round trips: rankings over the stated alphabet (non-negative ints; strings of ASCII / non-ASCII letters, inner "
        "spaces, digits with letters, punctuation other than []{},: -- never readable as an integer) printed in brace and "
        "bracket notation, with padding and a 'name:' prefix, parsed back with Ranking.from_string; datasets (incl. empty "
        "rankings) written with Dataset.write and re-read with from_file, judged by the reference multiset equality; "
        "(2) totality: random and grammar-mutated texts over the format's alphabet: the outcome must be a value or "
        "ValueError within a budget of 50*(len+1)^2 line events of the scanner; non-trivial = text with >= 2 buckets or "
        "rejected at a distinct scanner line; distinct = digest of the text / dataset")
ASSUMPTIONS = ["reference multiset equality (not the library's ==, which is recorded and cross-checked)",
               "step budget counted with sys.monitoring LINE events on corankco/utils.py"]
SUMMARY_KEYS = ["round_trips", "file_round_trips", "texts", "parsed", "rejected"]
CRASH_IS_VIOLATION = True
FILES = ["corankco/utils.py"]
ALPHA = list("[]{},: \t") + list("0123456789") + list("abXY") + ["é", "-", "_"]
BUDGET_TOOL = 4


class BudgetExceeded(Exception):
    pass


STATE = {"count": 0, "limit": 0, "armed": False}


def setup(ctx):
    from vf import cover
    cover.start(ctx.spec["repo"], FILES)
    mon = sys.monitoring
    try:
        mon.use_tool_id(BUDGET_TOOL, "vf-budget")
    except ValueError:
        pass
    target = os.path.realpath(os.path.join(ctx.spec["repo"], FILES[0]))

    def on_line(code, line):
        if not STATE["armed"]:
            return None
        if os.path.realpath(code.co_filename) != target:
            return None
        STATE["count"] += 1
        if STATE["count"] > STATE["limit"]:
            STATE["armed"] = False
            raise BudgetExceeded(f"more than {STATE['limit']} scanner line events")
        return None
    mon.register_callback(BUDGET_TOOL, mon.events.LINE, on_line)
    import corankco.utils as cu
    for fn in (cu.parse_ranking_with_ties, cu.get_rankings_from_file):
        mon.set_local_events(BUDGET_TOOL, fn.__code__, mon.events.LINE)


def finish(ctx):
    from vf import cover
    cover.flush(ctx)


def bounded(fn, text_len):
    STATE["count"] = 0
    STATE["limit"] = 50 * (text_len + 1) ** 2
    STATE["armed"] = True
    try:
        return call(fn)
    finally:
        STATE["armed"] = False


EXTRA_DEPS = {"thorough": ("atheris",)}


def plan(tier, seed):
    if tier == "quick":
        return [{"n_cases": 2600, "mode": "A", "hashseed": i % 3} for i in range(8)]
    return [{"n_cases": 60000, "mode": "A", "hashseed": i % 4} for i in range(14)] + \
           [{"kind": "atheris", "seconds": 150, "hashseed": i} for i in range(2)]


def run_atheris(spec, ctx):
    """thorough tier: coverage-guided fuzzing of the scanner in a sub-process (libFuzzer never returns)"""
    import glob
    import re
    import subprocess
    art = os.path.join(os.environ.get("TMPDIR", "/tmp"), "atheris-artifacts")
    env = dict(os.environ)
    env["VERIF_REPO_DIR"] = spec["repo"]
    case = {"kind": "atheris", "seconds": spec["seconds"]}
    ctx.begin(case)
    r = subprocess.run([sys.executable, "-m", "vf.fuzz_c18", art, str(spec["seconds"])], env=env, stdout=subprocess.PIPE,
                       stderr=subprocess.STDOUT, text=True, timeout=spec["seconds"] * 4 + 300)
    ctx.end()
    m = re.search(r"stat::number_of_executed_units:\s*(\d+)", r.stdout)
    execs = int(m.group(1)) if m else 0
    ctx.count("atheris_executions", execs)
    ctx.evaluations += execs
    crashes = sorted(glob.glob(os.path.join(art, "crash-*")) + glob.glob(os.path.join(art, "timeout-*")))
    for path in crashes[:5]:
        with open(path, "rb") as f:
            data = f.read()
        text = "".join(ALPHA[b % len(ALPHA)] for b in data)
        # re-judge the input with the ordinary monitor, so that the witness replays without atheris
        check_case({"kind": "random", "text": text, "found_by": "atheris"}, ctx)
    if crashes and not ctx.violations:
        ctx.error("atheris reported a crash that the monitor does not reproduce: " + r.stdout[-600:])
    if execs == 0:
        ctx.error("atheris produced no execution: " + r.stdout[-600:])
    ctx.nontrivial(case)


PROBE = r"""
import json, sys
sys.path.insert(0, sys.argv[1])
import corankco as ck
import corankco.utils as cu
texts = json.load(sys.stdin)
for i, t in enumerate(texts):
    print("START", i, flush=True)
    for label, fn in (("from_string", ck.Ranking.from_string), ("of_int", cu.parse_ranking_with_ties_of_int)):
        try:
            fn(t)
            out = "ok"
        except ValueError:
            out = "ValueError"
        except Exception as e:
            out = type(e).__name__
        print("DONE", i, label, out, flush=True)
"""
PROBE_TIMEOUT_S = 180


def probe_texts(texts, repo):
    """The texts are parsed by another interpreter under a generous wall-clock bound: a scanner that loops inside C code (a
    regular expression that backtracks without end) produces no line event and cannot be stopped in-process.
    Returns (outcomes {index: {label: outcome}}, index of the text being parsed when the bound expired or None)."""
    import json
    import subprocess
    env = dict(os.environ)
    env.pop("VERIF_COVER", None)
    p = subprocess.Popen([sys.executable, "-c", PROBE, repo], stdin=subprocess.PIPE, stdout=subprocess.PIPE,
                         stderr=subprocess.DEVNULL, text=True, env=env, cwd=os.environ.get("TMPDIR", "/tmp"))
    hung = None
    try:
        out, _ = p.communicate(json.dumps(texts), timeout=PROBE_TIMEOUT_S)
    except subprocess.TimeoutExpired:
        p.kill()
        out, _ = p.communicate()
        hung = -1
    outcomes, started = {}, None
    for line in (out or "").splitlines():
        w = line.split()
        if w[:1] == ["START"]:
            started = int(w[1])
        elif w[:1] == ["DONE"]:
            outcomes.setdefault(int(w[1]), {})[w[2]] = w[3]
    if hung is not None:
        hung = started
    return outcomes, hung, p.returncode


def long_malformed_texts(rng):
    """rankings of 26-60 buckets printed correctly, then damaged near the end (cut, closing bracket lost, stray character):
    the scanner has read a long valid prefix when it meets the fault"""
    texts = []
    for _ in range(24):
        nb = rng.randint(26, 60)
        names = rng.sample(range(0, 1000), nb + rng.randint(0, 12))
        buckets = [[x] for x in names[:nb]]
        for x in names[nb:]:
            buckets[rng.randrange(nb)].append(x)
        if rng.random() < 0.4:
            buckets = [[f"n{x}" for x in b] for b in buckets]
        t = text_of(buckets, rng.choice(["brace", "bracket"]), rng)
        how = rng.choice(["cut", "cut", "no-closing", "stray", "valid", "blanks"])
        if how == "cut":
            t = t[:len(t) - rng.randint(1, 12)]
        elif how == "no-closing":
            i = t.rstrip("]").rfind("]" if "]" in t[:-1] else "}")
            t = t[:i] + t[i + 1:]
        elif how == "stray":
            i = rng.randint(len(t) - 6, len(t))
            t = t[:i] + rng.choice(["[", "{", ",", ":", "x"]) + t[i:]
        elif how == "blanks":
            t = t.replace(",", " ,  ")[:len(t) + rng.randint(0, 40)]
        texts.append((how, t))
    return texts


def run_long_texts(spec, ctx):
    rng = random.Random(f"{spec['seed']}/C18/long-texts/{spec['shard']}")
    items = long_malformed_texts(rng)
    case = {"kind": "hang-probe", "texts": [t for _, t in items]}
    ctx.begin(case)
    check_case(case, ctx)
    ctx.end()


def run_shard(spec, ctx):
    if spec.get("kind") == "atheris":
        run_atheris(spec, ctx)
    else:
        from vf import core
        run_long_texts(spec, ctx)
        core.default_run_shard(sys.modules[__name__], spec, ctx)


WORD_CHARS = "abcdefgXYZéαß0123456789_-.;!?/#@'\"()<>=+*&%$"


def readable_as_int(w):
    try:
        int(w)
        return True
    except ValueError:
        return False


EXOTIC_INNER = "\x0b\x0c\x1c\x1d\x85\u2028\u00a0"      # line / paragraph separators that are not the format's newline


def word(rng):
    for _ in range(50):
        k = rng.randint(1, 6)
        w = "".join(rng.choice(WORD_CHARS + "  ") for _ in range(k)).strip()
        if len(w) >= 2 and rng.random() < 0.08:
            i = rng.randrange(1, len(w))
            w = (w[:i] + rng.choice(EXOTIC_INNER) + w[i:]).strip()
        if w and not w.isdigit() and "  " not in w and not readable_as_int(w):
            return w
    return "w"


def gen_ranking(rng):
    n = rng.randint(0, 7)
    if rng.random() < 0.5:
        names = rng.sample(range(0, 500), n)
    else:
        names = []
        while len(names) < n:
            w = word(rng)
            if w not in names:
                names.append(w)
    return gen.ranking_over(rng, names, rng.choice([0.0, 0.3, 0.6]))


def text_of(r, style, rng):
    op, cl = ("{", "}") if style == "brace" else ("[", "]")
    sep_in = rng.choice([", ", ",", " , ", ",  "])
    sep_out = rng.choice([", ", ",", " , "])
    return "[" + sep_out.join(op + sep_in.join(str(e) for e in b) + cl for b in r) + "]"


def mutate(rng, text):
    t = list(text)
    for _ in range(rng.randint(1, 3)):
        op = rng.choice(["del", "ins", "dup", "swap", "trunc"])
        if op == "del" and t:
            t.pop(rng.randrange(len(t)))
        elif op == "ins":
            t.insert(rng.randint(0, len(t)), rng.choice(ALPHA))
        elif op == "dup" and t:
            i = rng.randrange(len(t))
            t.insert(i, t[i])
        elif op == "swap" and len(t) >= 2:
            i = rng.randrange(len(t) - 1)
            t[i], t[i + 1] = t[i + 1], t[i]
        elif op == "trunc" and t:
            t = t[:rng.randrange(len(t))]
    return "".join(t)


def gen_case(rng, ctx):
    kind = rng.choice(["roundtrip", "roundtrip", "file", "random", "mutated", "mutated"])
    if kind == "mutated" and rng.random() < 0.25:
        # a well-formed text that names an element twice: in two different buckets (after large or small tied groups) or
        # twice in one bucket -- refused with ValueError or parsed, never anything else
        n = rng.randint(2, 9)
        names = rng.sample(range(0, 500), n) if rng.random() < 0.5 else [f"{c}{i}" for i, c in enumerate(rng.sample("abcdefghxyz", n))]
        r = gen.ranking_over(rng, names, rng.choice([0.3, 0.6, 0.8]))
        if rng.random() < 0.5 and len(r) >= 1:
            # ties first: the repeated element comes after a large bucket
            r.sort(key=len, reverse=True)
        src = rng.randrange(len(r))
        dst = rng.randrange(len(r)) if rng.random() < 0.8 else len(r)
        if dst == len(r):
            r.append([])
        r[dst] = list(r[dst]) + [rng.choice(r[src])]
        ctx.count("texts_naming_an_element_twice")
        return {"kind": "mutated", "text": rng.choice(["", "", "r: "]) + text_of(r, rng.choice(["brace", "bracket"]), rng)}
    if kind == "roundtrip":
        r = gen_ranking(rng)
        style = rng.choice(["brace", "bracket", "str"])
        prefix = rng.choice(["", "", " ", "\t", "r1:", "my ranking : ", "a:"])
        suffix = rng.choice(["", "", " ", "\n", "  \t"])
        return {"kind": kind, "ranking": r, "style": style, "prefix": prefix, "suffix": suffix, "seed": rng.randrange(10 ** 6)}
    if kind == "file" and rng.random() < 0.04:
        # long lines: rankings of 80-2000 elements whose text exceeds 1000 / 4096 / 65536 characters (wrapping, buffering,
        # line-length limits), with names that contain blanks
        n = rng.choice([80, 120, 300, 600, 2000])
        style = rng.choice(["phrases", "phrases", "ints", "words"])
        if style == "ints":
            names = rng.sample(range(0, 10 * n), n)
        elif style == "words":
            names = [f"item{i:05d}" for i in rng.sample(range(0, 10 * n), n)]
        else:
            pad = rng.choice(["the film no ", "a b c ", "x y\tz ", "long name with many blanks in it "])
            names = [pad + f"{i:04d}" + rng.choice(["", " bis", " (2)"]) for i in rng.sample(range(0, 10 * n), n)]
        ds, _base = gen.large_dataset(rng, n, rng.choice([1, 2, 3]), rng.choice(["near", "groups", "near-incomplete"]), names=names)
        return {"kind": "file", "ds": ds, "long": style}
    if kind == "file":
        strings = rng.random() < 0.5
        n = rng.randint(1, 7)
        if strings:
            names = []
            while len(names) < n:
                w = word(rng)
                if w not in names:
                    names.append(w)
        else:
            names = rng.sample(range(0, 300), n)
        _, ds = gen.dataset(rng, classes="D2 D3 D4 D4 D6", names=names, n=n, mmax=6)
        return {"kind": kind, "ds": ds}
    if kind == "random":
        k = rng.randint(0, 24)
        return {"kind": kind, "text": "".join(rng.choice(ALPHA) for _ in range(k))}
    r = gen_ranking(rng)
    return {"kind": kind, "text": mutate(rng, text_of(r, rng.choice(["brace", "bracket"]), rng))}


def typed(raw_ranking):
    return [sorted((type(e).__name__, e) for e in b) for b in raw_ranking]


def check_case(case, ctx):
    common.set_case(ctx, case)
    kind = case["kind"]
    if kind == "hang-probe":
        texts = case["texts"]
        outcomes, hung, rc = probe_texts(texts, ctx.spec["repo"])
        if hung is not None:
            ctx.violation("C18/parser-does-not-return", f"parsing {texts[hung]!r} ({texts[hung].count(',')} commas) had not "
                          f"returned after {PROBE_TIMEOUT_S} s in a separate interpreter (the {len(outcomes)} texts before it "
                          "took less than that together)", {"kind": "hang-probe", "texts": [texts[hung]]})
            return
        if len(outcomes) != len(texts):
            ctx.error(f"hang probe: {len(outcomes)} of {len(texts)} texts reported, exit code {rc}")
            return
        for i, o in sorted(outcomes.items()):
            ctx.count("long_damaged_texts")
            ctx.count("long_damaged_texts:" + o.get("from_string", "?"))
            for label, res in o.items():
                if res not in ("ok", "ValueError"):
                    ctx.violation(f"C18/parser-raises-{res}", f"{label}({texts[i]!r}) raised {res} (only ValueError is a "
                                  "documented refusal)", {"kind": "hang-probe", "texts": [texts[i]]})
        ctx.nontrivial(case)
        return
    if kind == "roundtrip":
        rng = random.Random(case["seed"])
        r = case["ranking"]
        st, robj = call(libx.mk_ranking, r)
        if st == "exc":
            return
        text = str(robj) if case["style"] == "str" else text_of(r, case["style"], rng)
        text = case["prefix"] + text + case["suffix"]
        sub = {**case, "text": text}
        if case["seed"] % 4 == 0:
            # through a file: Ranking.from_file reads the whole file as one ranking text
            tmpf = os.path.join(os.environ.get("TMPDIR", "/tmp"), f"c18r_{os.getpid()}.txt")
            with open(tmpf, "w", encoding="utf-8") as f:
                f.write(text)
            try:
                st, got = bounded(lambda: ck.Ranking.from_file(tmpf), len(text))
            finally:
                os.remove(tmpf)
            ctx.count("ranking_from_file")
        else:
            st, got = bounded(lambda: ck.Ranking.from_string(text), len(text))
        ctx.count("round_trips")
        ctx.count(f"round_trip:{case['style']}:{'int' if all(isinstance(e, int) for b in r for e in b) else 'str'}")
        if st == "exc":
            sig = "C18/parser-exceeds-step-budget" if isinstance(got, BudgetExceeded) else \
                f"C18/valid-text-rejected-{type(got).__name__}"
            ctx.violation(sig, f"from_string({text!r}) raised {exc_desc(got)} for the ranking {r}", sub, expected=r)
            return
        if typed(libx.raw_ranking(got)) != typed(r) or not (got == robj):
            ctx.violation("C18/round-trip-changes-the-ranking", f"from_string({text!r}) = {libx.raw_ranking(got)!r}, "
                          f"expected {r!r}", sub, observed=libx.raw_ranking(got), expected=r)
            return
        if len(r) >= 2:
            ctx.nontrivial(sub)
            ctx.sample({"text": text, "ranking": r}, key=case["style"] + case["prefix"])
    elif kind == "file":
        ds = case["ds"]
        st, d = call(libx.mk_dataset, ds)
        if st == "exc":
            return
        tmp = os.environ.get("TMPDIR", "/tmp")
        path = os.path.join(tmp, f"c18_{os.getpid()}_{ctx.evaluations}.txt")
        if ctx.evaluations % 3 == 0:
            # a bare file name / a relative path with a folder, resolved against the current directory
            os.chdir(tmp)
            os.makedirs(os.path.join(tmp, "sub"), exist_ok=True)
            path = os.path.basename(path) if ctx.evaluations % 2 else os.path.join("sub", os.path.basename(path))
            ctx.count("relative_paths")
        if os.path.exists(path):
            os.remove(path)
        sub = dict(case)
        try:
            st, res = call(d.write, path)
            if st == "exc":
                ctx.violation(f"C18/write-raises-{type(res).__name__}", exc_desc(res), sub)
                return
            if not os.path.exists(path):
                ctx.violation("C18/write-produced-no-file", "Dataset.write did not create the file", sub)
                return
            size = os.path.getsize(path)
            st, back = bounded(lambda: ck.Dataset.from_file(path), size)
            # the other readers of the same file / folder must agree with from_file
            others = {}
            if st == "ok":
                folder = path + ".d"
                os.makedirs(folder, exist_ok=True)
                import shutil
                shutil.copy(path, os.path.join(folder, "b_copy"))
                shutil.copy(path, os.path.join(folder, "a_copy"))
                others["get_dataset_from_file"] = call(ck.Dataset.get_dataset_from_file, path)
                others["get_datasets_from_folder"] = call(ck.Dataset.get_datasets_from_folder, folder)
                shutil.rmtree(folder, ignore_errors=True)
        finally:
            if os.path.exists(path):
                os.remove(path)
        ctx.count("file_round_trips")
        if case.get("long"):
            ctx.count("file_round_trips_long_lines")
            ctx.count("file_round_trips_long_lines:" + case["long"])
            sub = {"kind": "file", "long": case["long"], "ds": ds}
        has_empty = any(len(r) == 0 for r in ds)
        if has_empty:
            ctx.count("file_round_trips_with_empty_ranking")
        if st == "exc":
            sig = "C18/parser-exceeds-step-budget" if isinstance(back, BudgetExceeded) else \
                f"C18/written-file-not-readable-{type(back).__name__}"
            ctx.violation(sig, f"from_file(write(d)) raised {exc_desc(back)}", sub)
            return
        want = ref.dataset_multiset(libx.normalise_raw(ds))
        got = ref.dataset_multiset(libx.raw_dataset(back))
        if got != want or [typed(r) for r in libx.raw_dataset(back)] != [typed(r) for r in libx.normalise_raw(ds)]:
            mech = "C18/file-round-trip-changes-the-dataset"
            if has_empty and len(back.rankings) < len(ds) and \
                    ref.dataset_multiset([r for r in libx.normalise_raw(ds) if r]) == \
                    ref.dataset_multiset([r for r in libx.raw_dataset(back) if r]):
                mech += ":empty-rankings-lost"
            if case.get("long"):
                a, b = libx.normalise_raw(ds), libx.raw_dataset(back)
                lost = sorted({repr(e) for r in a for bk in r for e in bk} - {repr(e) for r in b for bk in r for e in bk})[:4]
                ctx.violation(mech + ":long-lines", f"{len(a)} rankings of up to {max(sum(len(bk) for bk in r) for r in a)} "
                              f"elements written, {len(b)} read back; names written and not read back: {lost}", sub)
                return
            ctx.violation(mech, f"written {libx.normalise_raw(ds)}, read back {libx.raw_dataset(back)}", sub,
                          observed=libx.raw_dataset(back), expected=libx.normalise_raw(ds))
            return
        st, eq = call(lambda: back == d)
        if st == "ok" and eq is not True:
            ctx.count("library_eq_disagrees_with_reference")     # C17's business; cross-reported in the evidence
        for api, (st_o, val) in others.items():
            ctx.count("other_readers_checked")
            if st_o == "exc":
                ctx.violation(f"C18/{api}-raises-{type(val).__name__}", f"{api} failed on a file that from_file reads: "
                              + exc_desc(val), sub)
                continue
            if api == "get_datasets_from_folder":
                datasets = val
                if len(datasets) != 2:
                    ctx.violation("C18/folder-reader-wrong-count", f"{len(datasets)} datasets for 2 files", sub)
                    continue
                raws = [libx.raw_dataset(x) for x in datasets]
            else:
                raws = [libx.raw_dataset(val)]
            for raw in raws:
                if [typed(r) for r in raw] != [typed(r) for r in libx.raw_dataset(back)]:
                    ctx.violation(f"C18/{api}-differs-from-from_file", f"{api} read {raw}, from_file read "
                                  f"{libx.raw_dataset(back)}", sub, observed=raw, expected=libx.raw_dataset(back))
                    break
        ctx.nontrivial(sub)
        ctx.sample({"ds": ds}, key="file" + str(has_empty))
    else:
        text = case["text"]
        import corankco.utils as cu
        outcomes = []
        for label, fn in (("from_string", lambda: ck.Ranking.from_string(text)),
                          ("of_int", lambda: cu.parse_ranking_with_ties_of_int(text))):
            st, got = bounded(fn, len(text))
            ctx.count("texts")
            if st == "ok":
                ctx.count("parsed")
                outcomes.append("ok")
                if label == "from_string":
                    probs = common.ranking_problems(got)
                    if probs:
                        ctx.violation("C18/parsed-ranking-ill-formed", f"from_string({text!r}): {probs[0][1]}", case)
            elif isinstance(got, BudgetExceeded):
                ctx.violation("C18/parser-exceeds-step-budget", f"{label}({text!r}) did not return within "
                              f"{STATE['limit']} scanner line events", case)
            elif isinstance(got, ValueError):
                ctx.count("rejected")
                where = exc_desc(got).rsplit(" at ", 1)[-1]
                ctx.count("rejected_at:" + where)
                outcomes.append(where)
            else:
                ctx.violation(f"C18/parser-raises-{type(got).__name__}", f"{label}({text!r}) raised {exc_desc(got)} "
                              "(only ValueError is a documented refusal)", case, observed=type(got).__name__,
                              expected="a ranking or ValueError")
        if text.count("[") + text.count("{") >= 3 or any(o != "ok" for o in outcomes):
            ctx.nontrivial(case)
            ctx.sample({"text": text, "outcomes": outcomes}, key=",".join(outcomes))


def reach(counters, tier, info):
    k = 0.5 if tier == "quick" else 20
    out = []
    for style in ("brace", "bracket", "str"):
        for t in ("int", "str"):
            v = counters.get(f"round_trip:{style}:{t}", 0)
            out.append({"name": f"round trips {style} notation, {t} elements", "observed": v, "required": 200 * k,
                        "ok": v >= 200 * k})
    for name, key, need in [("file round trips", "file_round_trips", 1000 * k),
                            ("file round trips with lines of more than 1000 characters", "file_round_trips_long_lines", 40 * k),
                            ("... whose names contain blanks", "file_round_trips_long_lines:phrases", 15 * k),
                            ("file round trips of datasets containing an empty ranking",
                             "file_round_trips_with_empty_ranking", 100 * k),
                            ("damaged texts of 26-60 buckets parsed by a separate interpreter under a wall-clock bound", "long_damaged_texts", 8 * 24 if tier == "quick" else 14 * 24),
                            ("... rejected with ValueError", "long_damaged_texts:ValueError", 60),
                            ("well-formed texts naming an element twice", "texts_naming_an_element_twice", 500 * k),
                            ("texts parsed", "parsed", 1000 * k), ("texts rejected with ValueError", "rejected", 3000 * k)] + \
            ([("atheris executions", "atheris_executions", 500000)] if tier == "thorough" else []):
        v = counters.get(key, 0)
        out.append({"name": name, "observed": v, "required": need, "ok": v >= need})
    sites = len([key for key in counters if key.startswith("rejected_at:")])
    out.append({"name": "distinct scanner lines at which a text was rejected", "observed": sites, "required": 5,
                "ok": sites >= 5})
    info2 = dict(info)
    info2["modes"] = set(info["modes"]) | {"C"}          # utils.py is plain Python: coverage is measured in every mode
    out += anchors.reach(info2, [(FILES[0], 22, 69, "bucket scanner")])
    return out
