"""C14 -- declared scheme applicability is truthful; complete data is never refused."""
from vf import gen, ref
from vf.core import call, exc_desc
from vf.lazy import ck, libx, common
from vf.monitors import algos

PROP = "C14"
TECHNIQUE = ('runtime monitoring of the applicability predicate and of compute on a complete and an incomplete dataset for plain and randomly nested configurations; in-place completion history; both values of return_at_most_one_ranking; exact algorithms among the starters; sound must-refuse rule for nested configurations; starters given in a tuple / set / frozenset / dict view')
RULE = ("cases = (complete dataset, incomplete dataset) x scheme (S1 presets, S2 multiples, S4 perturbed, S5 look-alikes, "
        "S3) x algorithm configuration, plain and nested (BioConsert with each starter list, BioCo, ParCons with each "
        "auxiliary incl. BioCo and BioConsert[Borda]); the predicate is called on the real object, then the algorithm is "
        "run on both datasets; non-trivial = the configuration involves Borda or PickAPerm, or the predicate answered "
        "True on a dataset with >= 3 elements; distinct = digest of (datasets, scheme, configuration)")
ASSUMPTIONS = ["reference model vf/ref.py for well-formedness", "refusal = ScoringSchemeNotHandledException or PickAPerm's "
               "dedicated exception"]
SUMMARY_KEYS = ["predicate_calls", "pred_true", "pred_false", "refusals", "acceptances_incomplete"]
THOROUGH_SCALE = 4
CRASH_IS_VIOLATION = False
TIMEOUT = {"quick": 900, "thorough": 5400}
CONFIGS = ["Borda", "BordaBucket", "PickAPerm", "Copeland", "KwikSort", "BioConsert", "BioCo", "BioConsert[Borda]",
           "BioConsert[PickAPerm]", "BioConsert[Copeland,KwikSort]", "BioConsert[Borda,PickAPerm]", "ParCons",
           "ParCons(BioCo;0)", "ParCons(BioConsert[Borda];0)", "ParCons(KwikSort;2)", "ParCons(Borda;0)",
           "ParCons(PickAPerm;0)", "Pulp", "Exact", "ExactNoOpt", "BioConsert[Exact,Borda]", "BioConsert[ParCons,PickAPerm]",
           "BioConsert[set:Borda]", "BioConsert[dictvalues:Copeland,PickAPerm]", "BioConsert[tuple:PickAPerm,KwikSort]",
           "BioConsert[frozenset:BioCo]", "BioConsert[dictkeys:Borda,Copeland]"]
IFF = {"BioConsert[set:Borda]", "BioConsert[dictvalues:Copeland,PickAPerm]", "BioConsert[tuple:PickAPerm,KwikSort]",
       "BioConsert[frozenset:BioCo]", "BioConsert[dictkeys:Borda,Copeland]",
       "Borda", "BordaBucket", "PickAPerm", "BioConsert[Borda]", "BioConsert[PickAPerm]", "BioCo",
       "BioConsert[Borda,PickAPerm]", "BioConsert[Exact,Borda]", "BioConsert[ParCons,PickAPerm]"}
STRICT_LEAVES = ("Borda", "BordaBucket", "PickAPerm", "BioCo")


def must_refuse(cfg, scheme):
    """sound part of 'refuses exactly when it declared the scheme not relevant' for nested configurations: a Borda /
    PickAPerm / BioCo leaf that itself answers 'not relevant' refuses every incomplete dataset, and a BioConsert runs every
    one of its starters, so a starter's refusal is the refusal of the whole -- whatever the other starters and their order.
    (A ParCons starter may or may not reach its auxiliary algorithm: nothing is required of it.)"""
    if cfg in STRICT_LEAVES:
        st, pred = call(libx.make_algorithm(cfg).is_scoring_scheme_relevant_when_incomplete_rankings, scheme)
        return st == "ok" and pred is False
    if cfg.startswith("BioConsert["):
        return any(must_refuse(x, scheme) for x in libx.starters_of(cfg)[1])
    return False


def plan(tier, seed):
    if tier == "quick":
        return [{"n_cases": 110, "mode": "A", "hashseed": i % 3} for i in range(8)] + \
               [{"n_cases": 60, "mode": "AD", "hashseed": 0}]
    return [{"n_cases": 1300, "mode": "A", "hashseed": i % 4} for i in range(13)] + \
           [{"n_cases": 500, "mode": "AD", "hashseed": i} for i in range(3)]


LEAVES = ["Borda", "PickAPerm", "Copeland", "KwikSort", "BordaBucket", "Borda", "PickAPerm", "Exact", "ParCons", "BioCo"]


def nested_config(rng, depth=2):
    """random nested configuration: BioConsert with 1-3 starters / ParCons with an auxiliary, starters themselves nested
    (several starters of the same class with different nested configurations on purpose)"""
    if depth == 0 or rng.random() < 0.25:
        return rng.choice(LEAVES)
    if rng.random() < 0.7:
        k = rng.choice([1, 2, 2, 3])
        return "BioConsert[" + ",".join(nested_config(rng, depth - 1) for _ in range(k)) + "]"
    return "ParCons(" + nested_config(rng, depth - 1) + ";0)"


def gen_case(rng, ctx):
    gen.OUTLIER["n_only_up_to"] = 9
    for _ in range(20):
        _, dsc = gen.dataset(rng, classes="D1 D2 D2", nmax=6, mmax=5)
        if ref.is_complete(dsc):
            break
    else:
        dsc = [[[1], [2]], [[2], [1]]]
    for _ in range(20):
        _, dsi = gen.dataset(rng, classes="D3 D3 D4 D7", nmax=6, mmax=5)
        if not ref.is_complete(dsi):
            break
    which = rng.random()
    if which < 0.2:
        scls, sch = "unifying-multiple", gen.scale(ref.PRESETS["unifying"], rng.choice([1.0] + gen.SCALES + gen.ODD_SCALES))
    elif which < 0.4:
        scls, sch = "preset-multiple", gen.scheme_preset_multiple(rng) if rng.random() < 0.6 else gen.scheme_preset(rng)
    elif which < 0.6:
        scls, sch = "lookalike", gen.scheme_lookalike(rng)
    else:
        scls, sch = gen.scheme(rng, "S3 S4 S6 S1")
    cfgs = rng.sample(CONFIGS, 6) + [nested_config(rng), nested_config(rng)]
    return {"complete": libx.normalise_raw(dsc), "incomplete": libx.normalise_raw(dsi), "scheme": sch, "scls": scls,
            "configs": cfgs, "libseed": rng.randrange(10 ** 6), "one": rng.random() < 0.6}


def check_case(case, ctx):
    sch = case["scheme"]
    common.set_case(ctx, case)
    scheme = libx.mk_scheme(sch)
    d_c = libx.mk_dataset(case["complete"])
    d_i = libx.mk_dataset(case["incomplete"])
    inc_is_incomplete = not ref.is_complete(case["incomplete"])
    if not ref.is_complete(case["complete"]):
        ctx.error("generator produced an incomplete 'complete' dataset")
        return
    one = case.get("one", True)
    for cfg in case["configs"]:
        sub = {"scheme": sch, "config": cfg, "complete": case["complete"], "incomplete": case["incomplete"],
               "libseed": case["libseed"], "one": one}
        st, alg = call(libx.make_algorithm, cfg)
        if st == "exc":
            ctx.violation(f"C14/constructor-raises-{type(alg).__name__}", f"{cfg}: {exc_desc(alg)}", sub)
            continue
        st, pred = call(alg.is_scoring_scheme_relevant_when_incomplete_rankings, scheme)
        ctx.count("predicate_calls")
        ctx.unit()
        ctx.count("predicate:" + (cfg if cfg in CONFIGS else "nested-random"))
        if cfg not in CONFIGS and cfg.count("[") + cfg.count("(") >= 2:
            ctx.count("nested_depth2_configs")
        if st == "exc":
            ctx.violation(f"C14/predicate-raises-{type(pred).__name__}", f"{cfg}.is_scoring_scheme_relevant_when_"
                          f"incomplete_rankings failed: {exc_desc(pred)}", sub, observed=type(pred).__name__,
                          expected="True or False")
            continue
        if not isinstance(pred, bool):
            ctx.violation("C14/predicate-not-a-bool", f"{cfg}: predicate returned {pred!r}", sub, observed=repr(pred))
            continue
        ctx.count("pred_true" if pred else "pred_false")
        ctx.count(f"pred:{cfg}:{pred}")
        # complete data: never refused
        libx.seed_library(case["libseed"])
        one = case.get("one", True)
        st, cons = call(alg.compute_consensus_rankings, d_c, scheme, one)
        if st == "exc" and not one and isinstance(cons, libx.DOCUMENTED_REFUSALS[2]):
            # the optimised CPLEX model documents that it cannot return all optimal rankings: a refusal of the arguments,
            # not of the scheme
            ctx.count("documented_argument_refusals")
            one = True
            st, cons = call(alg.compute_consensus_rankings, d_c, scheme, one)
        if st == "exc":
            sig = "C14/complete-dataset-refused" if isinstance(cons, libx.DOCUMENTED_REFUSALS) else \
                f"C14/complete-dataset-raises-{type(cons).__name__}"
            ctx.violation(sig, f"{cfg} did not accept a complete dataset under a valid scheme: {exc_desc(cons)}", sub,
                          observed=type(cons).__name__)
        elif common.consensus_problems(cons, d_c, one):
            ctx.count("ill_formed_left_to_C03")
        # incomplete data
        if not inc_is_incomplete:
            continue
        libx.seed_library(case["libseed"])
        st, cons = call(alg.compute_consensus_rankings, d_i, scheme, one)
        ctx.count("runs_at_most_one" if one else "runs_all_rankings")
        refused = st == "exc" and isinstance(cons, (libx.DOCUMENTED_REFUSALS[0], libx.DOCUMENTED_REFUSALS[1]))
        if st == "exc" and not refused:
            ctx.violation(f"C14/incomplete-dataset-raises-{type(cons).__name__}", f"{cfg} (predicate={pred}) failed on an "
                          f"incomplete dataset: {exc_desc(cons)}", sub, observed=type(cons).__name__)
            continue
        if refused:
            ctx.count("refusals")
            ctx.count("refusals:" + cfg)
            if pred:
                ctx.violation("C14/declared-relevant-but-refused", f"{cfg} declared the scheme relevant for incomplete "
                              f"rankings but refused an incomplete dataset ({type(cons).__name__})", sub,
                              observed="refusal", expected="a consensus")
        else:
            ctx.count("acceptances_incomplete")
            ctx.count("acceptances:" + cfg)
            probs = common.consensus_problems(cons, d_i, one)
            if probs and pred:
                ctx.violation("C14/declared-relevant-but-ill-formed-consensus", f"{cfg}: {probs[0][1]}", sub)
            nested_strict = cfg not in IFF and must_refuse(cfg, scheme)
            if nested_strict:
                ctx.count("strict_nested_configs_judged")
            if (cfg in IFF and not pred) or nested_strict:
                ctx.violation("C14/declared-not-relevant-but-accepted", f"{cfg} declared the scheme NOT relevant for "
                              "incomplete rankings but accepted an incomplete dataset", sub, observed="accepted",
                              expected="refusal")
        # history: the incomplete Dataset object (whose completeness has been observed by the run above) is made complete in
        # place by removing the elements that some ranking lacks; complete data must never be refused
        inc = case["incomplete"]
        common_elems = [e for e in ref.universe(inc) if all(any(e in b for b in r) for r in inc)]
        if len(common_elems) >= 2 and all(len(r) for r in inc) and cfg in case["configs"][:3]:
            d_m = libx.mk_dataset(inc)
            call(alg.compute_consensus_rankings, d_m, scheme, True)
            victims = {ck.Element(e) for e in ref.universe(inc) if e not in common_elems}
            stm, _ = call(d_m.remove_elements, victims)
            now = libx.raw_dataset(d_m)
            if stm == "ok" and ref.is_complete(now):
                ctx.count("made_complete_in_place")
                libx.seed_library(case["libseed"])
                st, cons = call(alg.compute_consensus_rankings, d_m, scheme, True)
                if st == "exc":
                    sig = "C14/complete-dataset-refused:after-in-place-completion" if isinstance(cons, libx.DOCUMENTED_REFUSALS) \
                        else f"C14/complete-dataset-raises-{type(cons).__name__}:after-in-place-completion"
                    ctx.violation(sig, f"{cfg} did not accept a dataset made complete in place by remove_elements: "
                                  f"{exc_desc(cons)}", {**sub, "made_complete": now}, observed=type(cons).__name__)
        if cfg not in IFF and refused and must_refuse(cfg, scheme):
            ctx.count("strict_nested_configs_judged")
        if cfg in IFF or (pred and len(ref.universe(case["incomplete"])) >= 3):
            ctx.nontrivial(sub)
            ctx.sample({**sub, "predicate": pred, "incomplete_outcome": "refused" if refused else "accepted"},
                       key=cfg + str(pred))


def reach(counters, tier, info):
    k = 0.5 if tier == "quick" else 12
    out = []
    for cfg in CONFIGS:
        v = counters.get("predicate:" + cfg, 0)
        out.append({"name": f"predicate evaluated on {cfg}", "observed": v, "required": 200 * k, "ok": v >= 200 * k})
    v = counters.get("made_complete_in_place", 0)
    out.append({"name": "runs on an incomplete Dataset object made complete in place", "observed": v, "required": 150 * k,
                "ok": v >= 150 * k})
    v = counters.get("strict_nested_configs_judged", 0)
    out.append({"name": "random nested BioConsert configurations with a Borda / PickAPerm / BioCo starter judged on "
                "'refuses exactly when declared not relevant'", "observed": v, "required": 200 * k, "ok": v >= 200 * k})
    for key, name in (("runs_at_most_one", "runs asking for at most one ranking"), ("runs_all_rankings", "runs asking for all")):
        v = counters.get(key, 0)
        out.append({"name": name, "observed": v, "required": 500 * k, "ok": v >= 500 * k})
    v = counters.get("nested_depth2_configs", 0)
    out.append({"name": "random nested configurations of depth 2", "observed": v, "required": 300 * k, "ok": v >= 300 * k})
    for cfg in sorted(IFF):
        t, f = counters.get(f"pred:{cfg}:True", 0), counters.get(f"pred:{cfg}:False", 0)
        out.append({"name": f"both answers observed for {cfg}", "observed": f"True x{t}, False x{f}",
                    "required": f">= {30 * k} each", "ok": t >= 30 * k and f >= 30 * k})
        a, r = counters.get("acceptances:" + cfg, 0), counters.get("refusals:" + cfg, 0)
        out.append({"name": f"acceptances and refusals on incomplete data for {cfg}", "observed": f"{a} / {r}",
                    "required": f">= {30 * k} each", "ok": a >= 30 * k and r >= 30 * k})
    return out
