"""Shared workload for the algorithm-level properties (C03, C04, C14, ...): run one algorithm
configuration of the real library on a raw case and hand back what was observed."""
from vf import gen, ref
from vf.core import call, exc_desc
from vf.lazy import ck, libx

ILP = {"pulp": 0}


def install_ilp_counter():
    """count the ILPs really handed to a solver (PuLP path); the stand-in counts its own"""
    import pulp
    if getattr(pulp.LpProblem.solve, "_vf_wrapped", False):
        return
    orig = pulp.LpProblem.solve

    def solve(self, *a, **k):
        ILP["pulp"] += 1
        return orig(self, *a, **k)
    solve._vf_wrapped = True
    pulp.LpProblem.solve = solve


def ilp_count():
    """number of solver calls so far (models given to the stand-in are solved through PuLP too)"""
    return ILP["pulp"]


def configs_for(mode):
    cfgs = list(libx.BASE_CONFIGS)
    if "D" in mode:
        cfgs += libx.CPLEX_CONFIGS
    return cfgs


def gen_algo_case(rng, ctx, classes="D1 D2 D3 D3 D4 D5 D6 D7 D8 D9 D10 D10 D16 D17 D18 D20", schemes="S1 S1 S2 S3 S3 S6 S9 S11",
                  nmax=7, nconf=7):
    gen.OUTLIER["n_only_up_to"] = 10       # exact configurations solve an ILP: element outliers stay moderate
    if "D" not in ctx.mode and "C" not in ctx.mode and rng.random() < 0.006:
        # one strongly connected component larger than ParCons' default bound for the exact solver (80): the default
        # ParCons must hand it to its auxiliary algorithm; heuristics only (an ILP on 85 elements is out of reach)
        n = rng.choice([83, 85, 90])     # stays above the bound after one element is removed in place
        base = list(range(n))
        rng.shuffle(base)
        ds = [[[e] for e in base[k:] + base[:k]] for k in (0, n // 3, 2 * n // 3)]
        return {"ds": ds, "scheme": [list(v) for v in ref.PRESETS[rng.choice(["unifying", "pseudodistance"])]],
                "configs": ["ParCons", "BioConsert", "KwikSort", "Borda", "Copeland", "BioCo", "ParCons(KwikSort;80)"],
                "one": True, "libseed": rng.randrange(10 ** 6), "dcls": "huge-component", "scls": "S1"}
    if rng.random() < 0.05:
        # a string-typed dataset (one word) whose non-trivial components are made of digit strings only: every
        # sub-problem built on such a component is integer-like on its own, and whatever comes back from it (exact solver
        # or auxiliary algorithm) must be mapped to the elements of the input dataset; configurations that project
        n = rng.choice([4, 5, 6, 7])
        digits = [str(v) for v in rng.sample(range(0, 40), n - 1)]
        word = rng.choice(["w", "a", "x1"])
        _, core = gen.dataset(rng, cls=rng.choice(["D9", "D11", "D11"]), names=digits, n=len(digits), mmax=5)
        where = rng.choice(["first", "last", "absent-sometimes"])
        ds = []
        for r in core:
            r = [list(b) for b in r]
            if where == "first" or (where == "absent-sometimes" and rng.random() < 0.5):
                r = [[word]] + r
            elif where == "last":
                r = r + [[word]]
            ds.append(r)
        if not any(word in b for r in ds for b in r):
            ds.append([[word]])
        chosen = ["ParCons(BioConsert;0)", "ParCons(KwikSort;2)", "ParCons(Copeland;2)", "ParCons(Borda;0)",
                  "ParCons(BioCo;2)", "ParCons"]
        if "D" in ctx.mode:
            chosen = ["Cplex", "CplexOptim1", "Exact"] + rng.sample(chosen, 3)
        else:
            chosen = chosen + rng.sample(["Exact", "BioConsert[Pulp]", "Pulp"], 1)
        return {"ds": libx.normalise_raw(ds), "scheme": gen.scheme(rng, "S1 S1 S3 S11")[1], "configs": chosen,
                "one": rng.random() < 0.7, "libseed": rng.randrange(10 ** 6), "dcls": "digit-components", "scls": "S1"}
    cls, ds = gen.dataset(rng, classes=classes, nmax=nmax, mmax=6)
    ds = libx.normalise_raw(ds)
    scls, sch = gen.scheme(rng, schemes)
    if rng.random() < 0.15:
        # the only family PickAPerm (alone or as a starter / auxiliary) accepts on incomplete data
        scls, sch = "unifying-multiple", gen.scale(ref.PRESETS["unifying"], rng.choice([1.0] + gen.SCALES + gen.ODD_SCALES))
    if "D" in ctx.mode:
        chosen = list(libx.CPLEX_CONFIGS) + ["Exact", "ExactNoOpt", "ParCons"] + rng.sample(libx.BASE_CONFIGS, 2)
    else:
        cfgs = configs_for(ctx.mode)
        chosen = rng.sample(cfgs, min(nconf, len(cfgs)))
    return {"ds": ds, "scheme": sch, "configs": chosen, "one": rng.random() < 0.5, "libseed": rng.randrange(10 ** 6),
            "dcls": cls, "scls": scls}


INSTANCES = {}
USES = {}


def get_instance(cfg, libseed):
    """a user typically builds one algorithm object and applies it to many datasets and schemes: two thirds of the
    runs reuse the instance built earlier in this process (state leaking from one call into the next then shows up in
    the oracles), every fourth use builds a fresh one"""
    USES[cfg] = USES.get(cfg, 0) + 1
    if USES[cfg] % 4 != 1 and cfg in INSTANCES:
        return "ok", INSTANCES[cfg]
    st, alg = call(libx.make_algorithm, cfg)
    if st == "ok":
        INSTANCES[cfg] = alg
    return st, alg


BENCH_RUNS = [0]


def run_config(cfg, dataset, scheme, one, libseed):
    """returns (status, consensus|exception, ilps_built)"""
    libx.seed_library(libseed)
    before = ilp_count()
    st, alg = get_instance(cfg, libseed)
    if st == "exc":
        return "ctor-exc", alg, 0
    if libseed % 5 == 0:
        # the optional argument bench_mode (documented: the same consensus, computed without the extra information): one run
        # in five takes that route, alternately as a keyword and as the fourth positional argument
        BENCH_RUNS[0] += 1
        if libseed % 10 == 0:
            st, cons = call(alg.compute_consensus_rankings, dataset, scheme, one, bench_mode=True)
        else:
            st, cons = call(alg.compute_consensus_rankings, dataset, scheme, one, True)
    else:
        st, cons = call(alg.compute_consensus_rankings, dataset, scheme, one)
    return st, cons, ilp_count() - before


def mutate_in_place(dataset, ds, r):
    """One step of a history on an already used Dataset object; returns (kind, applied?).
    kinds: remove_empty_rankings (preferred when the dataset holds an empty ranking), remove_elements (one or two
    elements), remove_elements_rate_presence_lower_than, and two aliasing steps -- the mutation is applied to a dataset
    DERIVED from this one earlier (unified_dataset / a projection on all its elements), which must leave this one as it is.
    The caller judges what follows against libx.raw_dataset(dataset), i.e. against the rankings the Dataset now holds."""
    uni = ref.universe(ds)
    has_empty = any(len(rk) == 0 for rk in ds) and any(len(rk) for rk in ds)
    kinds = ["remove_elements", "remove_elements", "rate", "derived-unified", "derived-projection", "remove_empty"]
    if has_empty:
        kinds += ["remove_empty"] * 6
    kind = r.choice(kinds)
    victims = r.sample(uni, min(len(uni) - 1, r.choice([1, 1, 2]))) if len(uni) >= 2 else []
    if kind == "remove_empty":
        st, _ = call(dataset.remove_empty_rankings)
    elif kind == "remove_elements":
        if not victims:
            return kind, False
        st, _ = call(dataset.remove_elements, {ck.Element(v) for v in victims})
    elif kind == "rate":
        st, _ = call(dataset.remove_elements_rate_presence_lower_than, r.choice([0.3, 0.5, 0.6, 1.0]))
    else:
        if not victims:
            return kind, False
        if kind == "derived-unified":
            st, other = call(dataset.unified_dataset)
        else:
            st, other = call(dataset.sub_problem_from_elements, set(dataset.universe))
        if st == "ok":
            st, _ = call(other.remove_elements, {ck.Element(v) for v in victims})
            if r.random() < 0.5:
                call(other.remove_empty_rankings)
    return kind, st == "ok"


PICKLED = {}


def pickled_batch(ctx):
    """once per shard: ten string-named datasets built and pickled by another interpreter (another hash seed), loaded here
    -- what a results file of an earlier run or an argument sent to a spawned worker is.  List of (raw, Dataset)."""
    if "batch" not in PICKLED:
        import random
        rng = random.Random(f"pickled/{ctx.spec.get('seed')}/{ctx.spec.get('shard')}")
        raws = []
        for _ in range(10):
            _k, names = gen.element_names(rng, rng.randint(3, 6), rng.choice(["str", "str", "mixed_str", "digits_plus_word"]))
            _c, ds = gen.dataset(rng, classes="D2 D3 D3 D9 D11", names=names, n=len(names), mmax=5, outlier=0)
            raws.append(libx.normalise_raw(ds))
        other = (int(ctx.spec.get("hashseed", 0)) + 7) % 100 + 1
        loaded = libx.pickled_elsewhere(raws, other, ctx.spec["repo"])
        PICKLED["batch"] = [(r, d) for r, d in zip(raws, loaded) if d is not None] if loaded else []
        ctx.count("pickled_batches_loaded" if loaded else "pickled_batches_failed")
    return PICKLED["batch"]


def refusal_is_documented(cfg, exc, ds_complete, one):
    """a documented refusal (the algorithm does not accept this input)"""
    from corankco.algorithms.exact.exactalgorithmbase import IncompatibleArgumentsException
    if isinstance(exc, IncompatibleArgumentsException):
        # documented for the CPLEX model with its optimisations on (also when reached through the selector)
        return cfg in ("Cplex", "Exact", "enum:EXACT") and not one
    if isinstance(exc, libx.DOCUMENTED_REFUSALS):
        return not ds_complete
    return False


def exc_signature(prop, exc):
    return f"{prop}/raises-{type(exc).__name__}"


__all__ = ["ref", "exc_desc", "ck"]
