"""C15 -- computing a consensus never modifies its inputs; results are repeatable."""
import random

from vf import gen, ref
from vf.core import call, exc_desc
from vf.lazy import ck, libx, common

PROP = "C15"
TECHNIQUE = ('history checker: deep public-state snapshots before/after every operation of random histories on shared Dataset / ScoringScheme / algorithm objects; result digests vs the same operations on fresh objects; early results re-digested at the end; snapshots include both matrices; topk / evaluate operations; histories on incomplete datasets of 10 000+ cells; starters given in other containers and, in the histories, as one-shot iterators')
RULE = ("history checker: a random history of 3-12 non-mutating API operations (any algorithm configuration -- the algorithm objects are shared too, one per configuration, reused across histories --, kemeny_score, "
        "description, str, both partitions, unified_rankings / dataset, projections, matrices, scheme * k, equivalence "
        "tests, dataset == other, nickname) runs on SHARED Dataset / ScoringScheme objects; (a) a deep snapshot of the "
        "public state (values, element types, order of the id maps, identity of the Ranking objects and of the penalty "
        "lists) is compared before / after every operation; (b) each operation's result digest equals the digest of the "
        "same operation on FRESH objects rebuilt from the raw specification under the same RNG seed; (c) results captured "
        "early are re-digested at the end of the history; (d) every algorithm except KwikSort called twice gives equal "
        "consensuses; non-trivial = histories with >= 3 operations of >= 2 kinds; distinct = digest of (dataset, scheme, history)")
ASSUMPTIONS = ["snapshots read public accessors only", "KwikSort is repeatable only under the same RNG seed (re-seeded per op)"]
SUMMARY_KEYS = ["histories", "ops", "snapshots_compared", "algorithm_runs_on_used_objects", "repeat_checks"]
THOROUGH_SCALE = 4
CRASH_IS_VIOLATION = False
TIMEOUT = {"quick": 900, "thorough": 5400}
ALG_OPS = ["Borda", "BordaBucket", "Copeland", "KwikSort", "PickAPerm", "BioConsert", "BioCo", "BioConsert[Borda]",
           "BioConsert[Copeland,KwikSort]", "BioConsert[PickAPerm]", "BioConsert[PickAPerm,Borda]", "ParCons",
           "ParCons(BioConsert;0)", "ParCons(KwikSort;2)", "ParCons(PickAPerm;0)", "Pulp", "Exact",
           # starters given in other containers; one-shot iterators are refused (TypeError) by the unchanged library at every
           # computation, which is left to other properties -- should they be accepted, every use must give the same result
           "BioConsert[tuple:Borda,Copeland]", "BioConsert[dictvalues:Copeland,Borda]", "BioConsert[iter:Borda,Copeland]",
           "BioConsert[gen:Copeland]"]
OTHER_OPS = ["kemeny_score", "description", "str", "parcons_partition", "parfront_partition", "unified_rankings",
             "unified_dataset", "sub_problem", "get_positions", "get_bucket_ids", "scheme_mul", "equivalence", "dataset_eq",
             "nickname", "score_candidate", "iterate", "topk", "topk"]


def _plan(tier, seed):
    if tier == "quick":
        return [{"n_cases": 110, "mode": "A", "hashseed": i % 3} for i in range(8)] + \
               [{"n_cases": 2, "mode": "A", "params": {"xlarge": prof}, "hashseed": i % 2} for i, prof in enumerate(["cells", "cells", "wide"])]
    return [{"n_cases": 1600, "mode": "A", "hashseed": i % 4} for i in range(14)] + \
           [{"n_cases": 500, "mode": "AD", "hashseed": i} for i in range(2)] + \
           [{"n_cases": 6, "mode": "A", "params": {"xlarge": prof}, "hashseed": i} for i, prof in enumerate(["cells", "cells", "wide", "tall"])]

def plan(tier, seed):
    """+ one shard running the repository's own tests under the monitors (vf/pytest_plugin.py)"""
    shards = _plan(tier, seed)
    if tier == "thorough":
        shards.append({"kind": "repotests", "n_cases": 0})
    return shards


LARGE_OPS = ["Borda", "Copeland", "KwikSort", "BioConsert", "BioCo", "BioConsert[Borda]", "ParCons(KwikSort;2)", "get_positions",
             "get_bucket_ids", "unified_rankings", "unified_dataset", "kemeny_score", "parcons_partition", "parfront_partition",
             "iterate", "dataset_eq"]


def gen_case(rng, ctx):
    if ctx.params.get("xlarge"):
        from vf.monitors import large
        case = large.gen_large(rng, profiles=[ctx.params["xlarge"]], schemes="S1 S1 S2", index=ctx.index)
        if case["m"] > 100:
            case["ds"] = case["ds"][:100]
        ops = ["BioConsert"] + [rng.choice(LARGE_OPS) for _ in range(rng.randint(2, 4))] + ["get_bucket_ids", "get_positions"]
        rng.shuffle(ops)
        return {"ds": case["ds"], "scheme": case["scheme"], "ops": ops, "opseed": rng.randrange(10 ** 6), "dcls": "xlarge",
                "cells": case["n"] * len(case["ds"])}
    gen.OUTLIER["n_only_up_to"] = 9
    cls, ds = gen.dataset(rng, classes="D1 D2 D3 D3 D4 D6 D7 D9 D11 D14 D14 D13 D17 D17 D16 D18", nmax=6, mmax=5)
    ds = libx.normalise_raw(ds)
    scls, sch = gen.scheme(rng, "S1 S1 S2 S3 S6")
    k = rng.randint(3, 12)
    ops = []
    for _ in range(k):
        ops.append(rng.choice(ALG_OPS) if rng.random() < 0.5 else rng.choice(OTHER_OPS))
    return {"ds": ds, "scheme": sch, "ops": ops, "opseed": rng.randrange(10 ** 6), "dcls": cls}


def snap_dataset(d):
    rankings = d.rankings
    return {
        "name": d.name, "complete": d.is_complete, "without_ties": d.without_ties, "nb_elements": d.nb_elements,
        "nb_rankings": d.nb_rankings,
        "e2i": [(type(e.value).__name__, e.value, i) for e, i in d.mapping_elem_id.items()],
        "i2e": [(i, type(e.value).__name__, e.value) for i, e in d.mapping_id_elem.items()],
        "rankings": [[sorted((type(e.value).__name__, e.value) for e in b) for b in r.buckets] for r in rankings],
        "positions": [sorted((type(e.value).__name__, e.value, p) for e, p in r.positions.items()) for r in rankings],
        # the two matrices every pairwise-based algorithm starts from (an algorithm that writes into a matrix kept by the
        # Dataset changes what the next caller reads)
        "positions_matrix": d.get_positions().tolist(),
        "bucket_ids_matrix": d.get_bucket_ids().tolist(),
    }


def identities_dataset(d):
    """object identities (advisory only: an accessor returning defensive copies is legitimate)"""
    rankings = d.rankings
    return ([id(r) for r in rankings], [[id(b) for b in r.buckets] for r in rankings])


def snap_scheme(s):
    pv = s.penalty_vectors
    return {"values": [list(pv[0]), list(pv[1])],
            "types": [[type(v).__name__ for v in pv[0]], [type(v).__name__ for v in pv[1]]]}


def diff_keys(a, b):
    return [k for k in a if a[k] != b[k]]


def digest_consensus(cons):
    out = {"rankings": [ref.canon_sorted(libx.raw_ranking(r)) for r in cons.consensus_rankings],
           "optimal": bool(cons.necessarily_optimal)}
    try:
        out["score"] = float(cons.kemeny_score)
    except Exception as exc:      # pylint: disable=broad-except
        out["score"] = "exc:" + type(exc).__name__
    return out


SHARED_ALGS = {}


def run_op(op, d, s, rng_seed, other, shared_algs=None):
    """returns a JSON-able digest of the operation's result; `other` is a second dataset for ==, built by the caller.
    shared_algs: dict of algorithm objects reused across the operations of a history (None = a fresh object)"""
    r = random.Random(rng_seed)
    libx.seed_library(rng_seed)
    uni = sorted(d.universe, key=lambda e: (str(type(e.value)), e.value))
    if op in ALG_OPS:
        if shared_algs is not None:
            if op not in shared_algs:
                shared_algs[op] = libx.make_algorithm(op)
            alg = shared_algs[op]
        else:
            alg = libx.make_algorithm(op)
        cons = alg.compute_consensus_rankings(d, s, r.random() < 0.5)
        return digest_consensus(cons), cons
    if op == "kemeny_score":
        cons = ck.Consensus([d.unified_rankings()[0]], dataset=d, scoring_scheme=s)
        return float(cons.kemeny_score), cons
    if op == "description":
        cons = ck.BordaCount().compute_consensus_rankings(d.unified_dataset(), s, True)
        txt = cons.description() + d.description() + s.description()
        return len(txt), None
    if op == "topk":
        # reading the top of a consensus and evaluating it against a gold standard (PickAPerm hands out the dataset's own
        # Ranking objects on complete data: whatever works on the returned sets works on the dataset's buckets)
        alg = ck.PickAPerm() if d.is_complete or r.random() < 0.5 else ck.CopelandMethod()
        cons = alg.compute_consensus_rankings(d, s, True)
        out = []
        for _ in range(3):
            k = r.randint(1, max(1, d.nb_elements))
            gold = [e for e in uni if r.random() < 0.4]
            top = cons.topk_ranking(k)
            out.append([k, sorted(str(e) for e in top), cons.evaluate_topk_ranking(gold, k),
                        cons.evaluate_topk_ranking((e for e in gold), k)])
        return out, cons
    if op == "str":
        cons = ck.CopelandMethod().compute_consensus_rankings(d, s, False)
        seen = [str(cons) == repr(cons), len(cons), cons.nb_consensus, [str(r) for r in cons], str(cons[0]),
                sorted(str(e) for e in cons.elements), cons.nb_elements, str(cons.associated_scoring_scheme),
                str(cons.associated_dataset) == str(d)]
        return [str(d) == repr(d), str(s), seen], None
    if op == "parcons_partition":
        p = ck.OrderedPartition.parcons_partition(d, s)
        return [sorted(map(str, (e.value for e in g))) for g in p.partition], p
    if op == "parfront_partition":
        p = ck.OrderedPartition.parfront_partition(d, s)
        return [sorted(map(str, (e.value for e in g))) for g in p.partition], p
    if op == "unified_rankings":
        u = d.unified_rankings()
        return [ref.canon_sorted(libx.raw_ranking(x)) for x in u], u
    if op == "unified_dataset":
        u = d.unified_dataset()
        return [ref.canon_sorted(libx.raw_ranking(x)) for x in u.rankings], u
    if op == "sub_problem":
        keep = {e for e in uni if r.random() < 0.6} or {uni[0]}
        sub = d.sub_problem_from_elements(keep)
        return [ref.canon_sorted(libx.raw_ranking(x)) for x in sub.rankings], sub
    if op == "get_positions":
        return d.get_positions().tolist(), None
    if op == "get_bucket_ids":
        return d.get_bucket_ids().tolist(), None
    if op == "scheme_mul":
        k = r.choice([0.5, 2, 3.0])
        t = s * k if r.random() < 0.5 else k * s
        return t.penalty_vectors, t
    if op == "equivalence":
        o = ck.ScoringScheme.get_unifying_scoring_scheme()
        return [s.is_equivalent_to(o), s.is_equivalent_to_on_complete_rankings_only(o), o.is_equivalent_to(s)], None
    if op == "dataset_eq":
        return [d == other, other == d, d == d], None
    if op == "nickname":
        return s.get_nickname(), None
    if op == "score_candidate":
        cand = d.unified_rankings()[-1]
        return float(ck.KemenyComputingFactory(s).get_kemeny_score(cand, d)), None
    if op == "iterate":
        return [len(d), [len(x) for x in d], d.contains_element(uni[0].value), d[0].nb_elements], None
    raise ValueError(op)


def redigest(op, obj):
    if obj is None:
        return None
    if op in ALG_OPS or op == "kemeny_score":
        return digest_consensus(obj) if op in ALG_OPS else float(obj.kemeny_score)
    if op in ("parcons_partition", "parfront_partition"):
        return [sorted(map(str, (e.value for e in g))) for g in obj.partition]
    if op == "unified_rankings":
        return [ref.canon_sorted(libx.raw_ranking(x)) for x in obj]
    if op in ("unified_dataset", "sub_problem"):
        return [ref.canon_sorted(libx.raw_ranking(x)) for x in obj.rankings]
    if op == "scheme_mul":
        return obj.penalty_vectors
    return None


def check_case(case, ctx):
    common.set_case(ctx, case)
    ds, sch, ops = case["ds"], case["scheme"], case["ops"]
    d = libx.mk_dataset(ds, "shared")
    s = libx.mk_scheme(sch)
    other = libx.mk_dataset(list(reversed(ds)), "other")
    ctx.count("histories")
    if case.get("dcls") == "xlarge":
        ctx.count("xlarge_histories")
        if case.get("cells", 0) >= 10000 and not ref.is_complete(ds):
            ctx.count("xlarge_histories_incomplete_10000_cells")
    captured = []
    used = False
    kinds = set()
    for step, op in enumerate(ops):
        seed = case["opseed"] + step
        sub = {**case, "failed_step": step, "op": op}
        before_d, before_s, before_o = snap_dataset(d), snap_scheme(s), snap_dataset(other)
        ident_before = identities_dataset(d)
        st, res = call(run_op, op, d, s, seed, other, SHARED_ALGS)
        after_d, after_s, after_o = snap_dataset(d), snap_scheme(s), snap_dataset(other)
        if identities_dataset(d) != ident_before:
            ctx.count("ranking_or_bucket_objects_replaced_with_equal_values")
        ctx.count("ops")
        ctx.count("op:" + op)
        ctx.count("snapshots_compared", 3)
        kinds.add(op)
        if op in ALG_OPS and used:
            ctx.count("algorithm_runs_on_used_objects")
        used = True
        if after_d != before_d or after_o != before_o:
            keys = diff_keys(before_d, after_d) or diff_keys(before_o, after_o)
            ctx.violation(f"C15/dataset-modified-by:{op.split('[')[0].split('(')[0]}:{'+'.join(keys)}",
                          f"step {step}: {op} changed the dataset ({keys}): before {{k: before_d[k] for k in keys}}",
                          sub, observed={k: after_d.get(k) for k in keys}, expected={k: before_d.get(k) for k in keys})
            return
        if after_s != before_s:
            keys = diff_keys(before_s, after_s)
            ctx.violation(f"C15/scheme-modified-by:{op.split('[')[0].split('(')[0]}:{'+'.join(keys)}",
                          f"step {step}: {op} changed the scoring scheme ({keys})", sub,
                          observed=after_s["values"], expected=before_s["values"])
            return
        if st == "exc":
            if isinstance(res, libx.DOCUMENTED_REFUSALS):
                ctx.count("refused_ops")
                continue
            ctx.count("op_raised_left_to_other_properties")
            continue
        dig, obj = res
        # (b) the same operation on fresh objects
        fd, fs = libx.mk_dataset(ds, "shared"), libx.mk_scheme(sch)
        fo = libx.mk_dataset(list(reversed(ds)), "other")
        st2, res2 = call(run_op, op, fd, fs, seed, fo)
        if st2 == "ok":
            ctx.count("fresh_comparisons")
            if res2[0] != dig:
                ctx.violation(f"C15/result-differs-from-fresh-objects:{op.split('[')[0].split('(')[0]}",
                              f"step {step}: {op} on the shared objects (already used by {ops[:step]}) gave a result "
                              "different from the same call on fresh objects", sub, observed=dig, expected=res2[0])
                return
        captured.append((step, op, dig, obj))
        # (d) repeatability
        if op in ALG_OPS and "KwikSort" not in op:
            st3, res3 = call(run_op, op, d, s, seed, other, SHARED_ALGS)
            ctx.count("repeat_checks")
            if st3 == "ok" and res3[0] != dig:
                ctx.violation(f"C15/not-repeatable:{op.split('[')[0].split('(')[0]}", f"step {step}: {op} called twice on "
                              "the same inputs returned different consensuses", sub, observed=res3[0], expected=dig)
                return
    # (c) results captured early must not have been mutated by later calls
    for step, op, dig, obj in captured:
        st, again = call(redigest, op, obj)
        if st == "ok" and again is not None:
            ctx.count("recaptured")
            if again != dig:
                ctx.violation(f"C15/earlier-result-mutated:{op.split('[')[0].split('(')[0]}", f"the result of step {step} "
                              f"({op}) changed after the later operations {ops[step + 1:]}", {**case, "failed_step": step},
                              observed=again, expected=dig)
                return
    if len(ops) >= 3 and len(kinds) >= 2:
        ctx.nontrivial({"ds": ds, "scheme": sch, "ops": ops})
        ctx.sample({"ds": ds, "scheme": sch, "ops": ops}, key=len(ops))


def reach(counters, tier, info):
    k = 0.5 if tier == "quick" else 15
    out = []
    for name, key, need in [("histories on datasets of 63-1025 elements / up to 100 rankings", "xlarge_histories", 5 if tier == "quick" else 20),
                            ("... incomplete, with at least 10 000 (element, ranking) cells", "xlarge_histories_incomplete_10000_cells",
                             3 if tier == "quick" else 10),
                            ("snapshots compared", "snapshots_compared", 10000 * k),
                            ("algorithm runs on objects already used by another operation", "algorithm_runs_on_used_objects", 1000 * k),
                            ("comparisons with fresh objects", "fresh_comparisons", 3000 * k),
                            ("repeatability checks", "repeat_checks", 1000 * k),
                            ("early results re-digested at the end", "recaptured", 1000 * k)]:
        v = counters.get(key, 0)
        out.append({"name": name, "observed": v, "required": need, "ok": v >= need})
    for op in ALG_OPS + OTHER_OPS:
        v = counters.get("op:" + op, 0)
        out.append({"name": f"operation {op} in histories", "observed": v, "required": 100 * k, "ok": v >= 100 * k})
    return out
