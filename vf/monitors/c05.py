"""C05 -- the exact algorithm returns a global optimum, with or without CPLEX."""
from vf import gen, ref
from vf.core import exc_desc
from vf.lazy import libx, common
from vf.monitors import algos

PROP = "C05"
TECHNIQUE = ('runtime monitoring of the exact configurations (PuLP; CPLEX classes through a generic 0-1 ILP stand-in that records the model) against a 3^n subset-DP oracle with all minimisers; exhaustive model monitor for n<=4; composite block oracle for 11-30 elements; critical scheme / dataset classes (D23 x S15, D25 x S17)')
RULE = ("cases = dataset (D2-D4, D7, D9, D10: non-trivial components, sparse rankings; n<=7 quick, <=9 thorough; 6-7 % of "
        "the cases: 11-16 (thorough: -30) elements in ordered blocks, judged by the composite oracle ref.BlockOptimum = "
        "cross-block 'before' costs + per-block DP optima, applied only when the cost table shows 'before' to be a "
        "cheapest placement of every cross pair) x "
        "scheme (S1-S3,S6) x exact configuration {CPLEX absent: selector optimize on/off, PuLP model; stand-in CPLEX "
        "(mode D): CPLEX model optimize on/off, paper-optim1 model, selector; one / all optimal rankings}; oracle = 3^n "
        "subset dynamic programme with reconstruction of all minimisers; non-trivial = an ILP was built on >= 3 elements "
        "and the optimum is neither the all-tied ranking nor a unanimous input ranking; distinct = digest of (dataset, "
        "scheme, configuration, flag)")
ASSUMPTIONS = ["reference model vf/ref.py (DP cross-checked against brute force each run)",
               "real CPLEX never runs: mode D drives the CPLEX classes through a generic 0-1 ILP stand-in (CBC + DFS "
               "enumeration); the claim is about the model the library builds and decodes",
               "dyadic penalties: exact comparisons", "CBC is exact on <= 150 binaries"]
SUMMARY_KEYS = ["runs", "ilp_runs", "all_optima_cases", "all_optima_multi", "models_checked"]
THOROUGH_SCALE = 3
CRASH_IS_VIOLATION = False
TIMEOUT = {"quick": 900, "thorough": 7200}
A_CONFIGS = ["Pulp", "Exact", "ExactNoOpt"]
D_CONFIGS = ["Cplex", "CplexNoOpt", "CplexOptim1", "Exact", "ExactNoOpt"]


def setup(ctx):
    algos.install_ilp_counter()


def plan(tier, seed):
    if tier == "quick":
        return ([{"n_cases": 130, "mode": "A", "hashseed": i % 2} for i in range(6)] +
                [{"n_cases": 70, "mode": "AD", "hashseed": i % 2} for i in range(6)])
    return ([{"n_cases": 400, "mode": "A", "hashseed": i % 4} for i in range(8)] +
            [{"n_cases": 350, "mode": "AD", "hashseed": i % 4} for i in range(8)])


def gen_case(rng, ctx):
    gen.OUTLIER["n_only_up_to"] = 9      # the exact oracle limits the number of elements; rankings are not limited
    thorough = ctx.tier == "thorough"
    nmax = (9 if rng.random() < 0.15 else 7) if thorough else (7 if rng.random() < 0.3 else 6)
    if "D" in ctx.mode:
        nmax = min(nmax, 7 if thorough else 6)
    if rng.random() < 0.1:
        # components that some voters tie, some order and some miss entirely, under schemes whose two penalties for a pair
        # of unranked elements differ: the per-component models must keep counting the voters that miss the component
        cls, ds = gen.dataset(rng, cls="D23", n=rng.choice([4, 5, 6, 7]), mmax=6)
        ds = libx.normalise_raw(ds)
        return {"ds": ds, "scheme": gen.scheme(rng, "S15 S15 S15 S13")[1], "dcls": cls, "scls": "S15"}
    if rng.random() < 0.02:
        # a component held together by ties only around a perfectly balanced pair (gen D26)
        cls, ds = gen.dataset(rng, cls="D26", n=rng.choice([3, 4, 5, 6]))
        ds = libx.normalise_raw(ds)
        return {"ds": ds, "scheme": gen.scheme(rng, "S1 S1 S2 S3")[1], "dcls": cls, "scls": "S1"}
    if rng.random() < 0.06:
        # every pair inverted as often as not, the decision left to who ranks whom, under schemes whose penalties for
        # unranked elements are 2^-20 of the others: costs equal up to a relative 1e-6 and different in fact
        cls, ds = gen.dataset(rng, cls="D25", n=rng.choice([3, 4, 5, 6]), mmax=6)
        ds = libx.normalise_raw(ds)
        return {"ds": ds, "scheme": gen.scheme(rng, "S17 S17 S16 S1 S1 S2 S3")[1], "dcls": cls, "scls": "S17"}
    if rng.random() < 0.25:
        # critical band: small pure cycles under a scheme whose tie cost sits around 1/3 .. 1/2 .. 1 of the inversion cost
        cls, ds = gen.dataset(rng, classes="D9 D9 D11", n=rng.choice([3, 3, 4, 5, 6]), mmax=6)
        ds = libx.normalise_raw(ds)
        return {"ds": ds, "scheme": gen.scheme_ratio_band(rng), "dcls": cls, "scls": "S11"}
    if rng.random() < (0.07 if thorough else 0.06):
        # beyond the subset DP: 11-30 elements in ordered blocks of 1-5 (ids >= 10 inside the components, many components,
        # large models); the oracle is the composite one of ref.BlockOptimum, which decides on the cost table whether the
        # decomposition argument applies
        n = rng.choice([11, 12, 13, 14, 16, 18, 20, 24, 30] if thorough else [11, 12, 12, 13, 14, 16])
        ds, blocks = gen.block_dataset(rng, n)
        ei = ref.expected_type_is_int(ds)
        ds = libx.normalise_raw(ds)
        blocks = [[libx.lib_value(e, ei) for e in b] for b in blocks]
        scls, sch = gen.scheme(rng, "S1 S1 S2 S3 S3 S6 S11")
        return {"ds": ds, "scheme": sch, "dcls": "blocks", "scls": scls, "blocks": blocks, "pick": rng.randrange(10 ** 6)}
    if rng.random() < 0.07 and "D" not in ctx.mode:
        # nine or ten elements in blocks of 3-4 with cyclic majorities: internal ids >= 8 sit inside a non-trivial component
        cls, ds = gen.dataset(rng, cls="D11", n=rng.choice([9, 9, 10] if thorough else [9]), m=rng.choice([3, 3, 5, 6]), mmax=6)
        ds = libx.normalise_raw(ds)
        return {"ds": ds, "scheme": gen.scheme(rng, "S1 S1 S11 S3")[1], "dcls": "D11-9plus", "scls": "S1"}
    if rng.random() < 0.2:
        # incomplete rankings under schemes where a pair with an unranked element costs nothing: pairs compared by few
        # rankings only, whose order in the optimum is decided by third elements
        cls, ds = gen.dataset(rng, classes="D3 D3 D4 D7", n=rng.choice([4, 4, 5, 5, 6]), mmax=6)
        ds = libx.normalise_raw(ds)
        return {"ds": ds, "scheme": gen.scheme_unranked_free(rng), "dcls": cls, "scls": "unranked-free"}
    cls, ds = gen.dataset(rng, classes="D11 D11 D11 D9 D9 D2 D2 D2 D3 D4 D7 D10 D8 D15 D15 D20 D14 D14", nmax=nmax, mmax=6)
    ds = libx.normalise_raw(ds)
    scls, sch = gen.scheme(rng, "S1 S2 S3 S3 S3 S6 S9 S11 S11 S11 S16 S16")
    return {"ds": ds, "scheme": sch, "dcls": cls, "scls": scls}


def check_model(ctx, case, model, ds, sch, ids, elems):
    """invariant at a hook (mode D, non-optimised model, n<=4): every ranking with ties is a feasible 0/1 assignment
    whose objective is its Kemeny score, and every feasible assignment decodes to a ranking with ties"""
    import cplex
    names = model["names"]
    idx = {nm: k for k, nm in enumerate(names)}
    inv = {i: e for e, i in ids.items()}
    n = len(elems)
    problems = 0
    count = 0
    for r in ref.weak_orders(elems):
        count += 1
        pos = ref.bucket_index(r)
        x = [0.0] * len(names)
        for nm, k in idx.items():
            kind, a, b = nm.split("_")
            ea, eb = inv[int(a)], inv[int(b)]
            if kind == "x":
                x[k] = 1.0 if pos[ea] < pos[eb] else 0.0
            else:
                x[k] = 1.0 if pos[ea] == pos[eb] else 0.0
        feasible = True
        for (ind, val), sense, rhs in zip(model["rows"], model["senses"], model["rhs"]):
            act = sum(v * x[i] for i, v in zip(ind, val))
            if (sense == "E" and act != rhs) or (sense == "L" and act > rhs) or (sense == "G" and act < rhs):
                feasible = False
                break
        objective = sum(c * v for c, v in zip(model["obj"], x))
        if not feasible or ref.fr(objective) != ref.kemeny(r, ds, sch):
            problems += 1
    sols = cplex.enumerate_solutions(model["obj"], model["rows"], list(model["senses"]), model["rhs"], float("inf"), 10 ** 6)
    if len(sols) != count:
        problems += 1
    ctx.count("models_checked")
    if problems:
        ctx.count("model_monitor_failures")
        ctx.sample({"model_monitor_failure": {"ds": ds, "scheme": sch, "problems": problems,
                                              "feasible_assignments": len(sols), "rankings_with_ties": count}},
                   key="model-failure")
    return problems == 0


def check_case(case, ctx):
    """the case's dataset, then (one case in three) a successor with the same number of elements and rankings -- elements
    renamed cyclically, every ranking reversed -- solved by the same algorithm objects right afterwards"""
    judge(case, ctx, case["ds"])
    ds = case["ds"]
    elems = ref.universe(ds)
    if len(elems) >= 3 and gen.digest(ds)[0] in "01234":
        ren = dict(zip(elems, elems[1:] + elems[:1]))
        ds2 = [[[ren[e] for e in b] for b in reversed(r)] for r in ds]
        ctx.count("same_shape_successors")
        nxt = {**case, "successor_of": ds}
        if case.get("blocks"):
            nxt["blocks"] = [[ren[e] for e in b] for b in reversed(case["blocks"])]
        judge(nxt, ctx, ds2)


class BlockOracle:
    """adaptor giving ref.BlockOptimum the two things judge() asks of ref.Optimum"""

    def __init__(self, bo):
        self.bo = bo
        self.value = bo.value

    def minimisers(self, cap=5000):
        if not self.bo.strict or self.bo.nb_optima() > 64:
            return None
        out = [[]]
        for dp in self.bo.dps:
            out = [a + [list(b) for b in r] for a in out for r in dp.minimisers()]
        return out


def judge(case, ctx, ds):
    sch = case["scheme"]
    common.set_case(ctx, case)
    dataset = libx.mk_dataset(ds)
    scheme = libx.mk_scheme(sch)
    elems = ref.universe(ds)
    n = len(elems)
    blocks = case.get("blocks")
    if blocks:
        bo = ref.BlockOptimum(ds, sch, blocks)
        if not bo.ok:
            ctx.count("blocks_not_decomposable")
            return
        ctx.count("blocks_judged")
        ctx.count("blocks_strict" if bo.strict else "blocks_not_strict")
        if sum(1 for b in blocks if len(b) >= 3) >= 2:
            ctx.count("blocks_two_components_ge3")
        dp = BlockOracle(bo)
    else:
        dp = ref.optimum_dp(ds, sch, elems)
    best = dp.value
    minimisers = None
    trivial_opt = ref.kemeny([list(elems)], ds, sch) == best or any(
        ref.kemeny(u, ds, sch) == best for u in ref.unify(ds))
    ctx.count("class:" + case.get("dcls", "?"))
    mode_d = "D" in ctx.mode
    runs = []
    if blocks:
        # large models: two or three configurations per case instead of all
        import random
        pick = random.Random(case.get("pick", 0))
        if mode_d:
            runs = [("Cplex", True), ("CplexOptim1", True), (pick.choice(["CplexNoOpt", "Exact", "ExactNoOpt"]), True)]
            if n <= 14 and dp.minimisers() is not None:
                runs.append(("CplexNoOpt", False))
        else:
            runs = [(c, True) for c in pick.sample(A_CONFIGS, 2)]
    elif mode_d:
        for cfg in D_CONFIGS:
            runs.append((cfg, True))
        runs.append(("CplexNoOpt", False))
        runs.append(("CplexOptim1", False))
    else:
        for cfg in A_CONFIGS:
            runs.append((cfg, True))
        runs.append(("Pulp", False))
        runs.append(("ExactNoOpt", False))
    for cfg, one in runs:
        sub = {"ds": ds, "scheme": sch, "configs": [cfg], "one": one, "cplex": "stand-in" if mode_d else "absent"}
        if "successor_of" in case:
            sub["previous_call_on"] = case["successor_of"]
        if mode_d:
            import cplex
            del cplex.MODELS[:]
        st, cons, ilps = algos.run_config(cfg, dataset, scheme, one, 0)
        ctx.count("runs")
        ctx.unit()
        ctx.count("runs:" + cfg + ("" if one else ":all"))
        if ilps:
            ctx.count("ilp_runs")
            if n >= 3:
                ctx.count("ilp_runs_n3")
        if st != "ok":
            sig = "C05/selector-fails-without-cplex" if (not mode_d and cfg.startswith("Exact")) \
                else f"C05/exact-raises-{type(cons).__name__}"
            ctx.violation(sig, f"{cfg} (at_most_one={one}, cplex {sub['cplex']}) did not answer: {exc_desc(cons)}", sub,
                          observed=type(cons).__name__, expected=best)
            continue
        try:
            rankings = [libx.raw_ranking(r) for r in cons.consensus_rankings]
        except Exception:      # pylint: disable=broad-except
            ctx.count("unreadable")
            continue
        if not rankings or not all(common.wellformed_raw(r, elems) for r in rankings):
            ctx.violation("C05/ill-formed-result", f"{cfg}: ill-formed consensus {rankings[:2]}", sub,
                          observed=rankings[:3], expected="rankings over the universe")
            continue
        bad = None
        for r in rankings:
            sc = ref.kemeny(r, ds, sch)
            if sc != best:
                bad = (r, sc)
                break
        if bad:
            # mechanism: does some input ranking miss a whole multi-element component of the graph of elements?
            ctx.violation(f"C05/suboptimal:{cfg}", f"{cfg} (at_most_one={one}, cplex {sub['cplex']}) returned {bad[0]} "
                          f"of score {float(bad[1])} but the optimum is {float(best)}", sub, observed=bad[1], expected=best)
        if cfg == "CplexNoOpt" and not one:
            if minimisers is None:
                minimisers = dp.minimisers(cap=5000)
            ctx.count("all_optima_cases")
            if minimisers is not None:
                want = {ref.canon(r) for r in minimisers}
                got = [ref.canon(r) for r in rankings]
                if len(want) >= 2:
                    ctx.count("all_optima_multi")
                if len(set(got)) != len(got):
                    ctx.violation("C05/all-optima-duplicates", "the set of all optimal consensuses contains duplicates",
                                  sub, observed=rankings[:6], expected=len(want))
                elif set(got) != want and not bad:
                    miss = [list(map(sorted, r)) for r in want - set(got)][:3]
                    ctx.violation("C05/all-optima-set-differs", f"all optimal consensuses requested: {len(got)} returned, "
                                  f"{len(want)} exist; missing e.g. {miss}", sub, observed=len(got), expected=len(want))
        # no-tie optimisation outcome (both outcomes must be seen): optimised models add t==0 rows when allowed
        if mode_d and cfg in ("Cplex", "CplexOptim1") and ilps:
            import cplex
            for m in cplex.MODELS:
                nb_single = sum(1 for (ind, _v), sn in zip(m["rows"], m["senses"]) if len(ind) == 1 and sn == "E")
                ctx.count("notie_applied" if nb_single else "notie_not_applied")
        if mode_d and cfg == "CplexNoOpt" and one and n <= 4 and ilps:
            import cplex
            ids = {e.value: i for e, i in dataset.mapping_elem_id.items()}
            for m in cplex.MODELS[:1]:
                if len(m["names"]) == n * (n - 1) + n * (n - 1) // 2:
                    check_model(ctx, case, m, ds, sch, ids, elems)
        if n >= 3 and ilps and not trivial_opt:
            ctx.nontrivial(sub)
            ctx.sample({**sub, "returned": rankings[:3], "optimum": float(best)}, key=cfg + str(one))


def reach(counters, tier, info):
    k = 0.5 if tier == "quick" else 8
    out = []
    runs = counters.get("runs", 0)
    v = counters.get("ilp_runs_n3", 0)
    out.append({"name": "runs that built an ILP on >= 3 elements", "observed": f"{v}/{runs}", "required": ">= 40%",
                "ok": runs > 0 and v >= 0.4 * runs})
    for name, key, need in [("all-optima requests judged against the full set of minimisers", "all_optima_cases", 100 * k),
                            ("all-optima cases with >= 2 optima", "all_optima_multi", 50 * k),
                            ("no-tie optimisation applied (stand-in saw t==0 rows)", "notie_applied", 20 * k),
                            ("no-tie optimisation not applicable", "notie_not_applied", 20 * k),
                            ("non-optimised models checked exhaustively (n<=4)", "models_checked", 10 * k),
                            ("same-shape successor datasets solved by the same objects", "same_shape_successors", 150 * k),
                            ("datasets of 11+ elements judged by the composite block oracle", "blocks_judged", 30 * k),
                            ("... of which with two or more components of 3+ elements", "blocks_two_components_ge3", 15 * k)]:
        v = counters.get(key, 0)
        out.append({"name": name, "observed": v, "required": need, "ok": v >= need})
    for cfg in ["Pulp", "Exact", "ExactNoOpt", "Cplex", "CplexNoOpt", "CplexOptim1", "CplexNoOpt:all"]:
        v = counters.get("runs:" + cfg, 0)
        out.append({"name": f"runs of {cfg}", "observed": v, "required": 100 * k, "ok": v >= 100 * k})
    v = counters.get("model_monitor_failures", 0)
    out.append({"name": "model monitor (advisory, reported only with an API-level witness): failures", "observed": v,
                "required": 0, "ok": v == 0, "gating": False})
    return out
