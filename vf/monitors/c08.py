"""C08 -- BioConsert returns a local optimum of the Kemeny score."""
from vf import gen, ref, anchors
from vf.core import call, exc_desc
from vf.lazy import libx, common
from vf.monitors import algos, large

PROP = "C08"
TECHNIQUE = ('runtime monitoring of BioConsert (JIT, bounds-checked JIT, interpreted kernels with anchor coverage and strict-index arrays): every single-element move of every returned ranking priced by the reference table; best single move on 63-1025 elements / 300 x 120 datasets by a vectorised reference; search again after an in-place mutation; both values of return_at_most_one_ranking; the bench_mode route')
RULE = ("cases = dataset (D2-D4, D9, D10, D11, Markov-like perturbations; several multi-element buckets; n<=10, few n=16) "
        "x scheme (S1-S3, scaled, and S8 threshold-scale penalties k*2^-12..k*2^-8 crossing the 0.001 threshold from both "
        "sides) x configuration (BioConsert without starters, with [Borda] / [Copeland,KwikSort] / [PickAPerm], BioCo), all "
        "rankings requested; every single-element move (join any other bucket, new bucket at any position) of every "
        "returned ranking is priced with the reference cost table; non-trivial = returned ranking has >= 2 buckets, one of "
        "size >= 2, and is not one of the (unified) input rankings; distinct = digest of (dataset, scheme, config, seed)")
ASSUMPTIONS = ["reference model vf/ref.py", "dyadic penalties incl. threshold scale: float sums exact", "n <= 16"]
SUMMARY_KEYS = ["rankings_checked", "moves_priced", "gain_left_below_threshold"]
THOROUGH_SCALE = 4
CRASH_IS_VIOLATION = True
CONFIGS = ["BioConsert", "BioConsert[Borda]", "BioConsert[Copeland,KwikSort]", "BioConsert[PickAPerm]", "BioCo"]
FILES = ["corankco/algorithms/bioconsert/bioconsert.py"]
THRESHOLD = 0.001


NEG_INDEX = {"events": 0}


def setup(ctx):
    if "C" in ctx.mode:
        from vf import cover
        cover.start(ctx.spec["repo"], FILES)
        # interpreted kernels: the work arrays of the local search become strict arrays that count negative indices
        # (numba and numpy silently wrap them around); advisory -- a wrapped index is not an API-level violation
        import numpy as np
        import corankco.algorithms.bioconsert.bioconsert as bc

        class StrictArray(np.ndarray):
            def __getitem__(self, idx):
                if isinstance(idx, (int, np.integer)) and idx < 0:
                    NEG_INDEX["events"] += 1
                return super().__getitem__(idx)

            def __setitem__(self, idx, value):
                if isinstance(idx, (int, np.integer)) and idx < 0:
                    NEG_INDEX["events"] += 1
                super().__setitem__(idx, value)

        real_zeros = bc.zeros

        def strict_zeros(*a, **k):
            return real_zeros(*a, **k).view(StrictArray)
        bc.zeros = strict_zeros


def finish(ctx):
    if "C" in ctx.mode:
        from vf import cover
        cover.flush(ctx)
        ctx.count("negative_index_events_in_interpreted_kernels", NEG_INDEX["events"])


def plan(tier, seed):
    if tier == "quick":
        return ([{"n_cases": 260, "mode": "A", "hashseed": i % 2} for i in range(5)] +
                [{"n_cases": 130, "mode": "B", "hashseed": i} for i in range(2)] +
                [{"n_cases": 50, "mode": "C", "hashseed": 0}, {"n_cases": 50, "mode": "C", "hashseed": 1}] +
                [{"n_cases": 2, "mode": "A", "params": {"xlarge": prof}, "hashseed": i % 2}
                 for i, prof in enumerate(["heavy", "wide", "tall", "cells"])])
    return ([{"n_cases": 1500, "mode": "A", "hashseed": i % 4} for i in range(9)] +
            [{"n_cases": 1500, "mode": "B", "hashseed": i} for i in range(4)] +
            [{"n_cases": 300, "mode": "C", "hashseed": i} for i in range(3)] +
            [{"n_cases": 8, "mode": "A", "params": {"xlarge": prof}, "hashseed": i}
             for i, prof in enumerate(["heavy", "wide", "tall", "cells"])])


def gen_case(rng, ctx):
    if ctx.params.get("xlarge"):
        case = large.gen_large(rng, profiles=[ctx.params["xlarge"]], schemes="S1 S1 S2 S3")
        case["dcls"] = "xlarge"
        return case
    big = rng.random() < 0.05 and "C" not in ctx.mode
    nmax = 16 if big else (7 if "C" in ctx.mode else 10)
    cls, ds = gen.dataset(rng, classes="D2 D2 D3 D3 D4 D9 D10 D11 D8 D7 D15 D13 D16 D16 D17 D14", nmax=nmax, mmax=7)
    ds = libx.normalise_raw(ds)
    scls, sch = gen.scheme(rng, "S1 S2 S3 S3 S3 S8 S8 S6 S9 S10 S11")
    return {"ds": ds, "scheme": sch, "dcls": cls, "scls": scls, "libseed": rng.randrange(10 ** 6),
            "configs": [rng.choice(CONFIGS), "BioConsert"]}


def check_xlarge(case, ctx):
    """size classes of vf/monitors/large.py: best single-element move of every returned ranking priced by the vectorised
    reference"""
    lc = large.Context(case)
    common.set_case(ctx, large.slim(case))
    ctx.count("xlarge:" + case["profile"])
    cfgs = ["BioCo", "BioConsert[Copeland]", "BioConsert[Borda]"]
    if case["profile"] == "wide" and case["m"] <= 5:
        cfgs.append("BioConsert")
    for cfg in cfgs:
        sub = large.slim(case, configs=[cfg], libseed=case["libseed"])
        st, cons = large.run(cfg, lc, False, case["libseed"])
        if st != "ok":
            if large.refusal_expected(cfg, cons, lc):
                ctx.count("refused")
                continue
            ctx.violation(f"C08/raises-{type(cons).__name__}", f"{cfg} raised {exc_desc(cons)} on {case['n']} elements x "
                          f"{case['m']} rankings", sub)
            continue
        ctx.unit()
        ctx.count("runs:" + cfg)
        for r in [libx.raw_ranking(x) for x in cons.consensus_rankings][:3]:
            if not lc.wellformed(r):
                ctx.count("ill_formed_left_to_C03")
                continue
            c = lc.refnp.candidate_positions(r, lc.elems)
            gain, e, how = lc.refnp.best_single_move_gain(c, lc.table)
            ctx.count("xlarge_rankings_checked")
            if lc.score(r) > 2 ** 31 / 1000:
                ctx.count("xlarge_rankings_with_score_above_2^31/1000")
            if gain > THRESHOLD + 1e-9:
                ctx.violation(f"C08/improving-move-left:{how[0]}", f"{cfg} on {case['n']} elements x {case['m']} rankings "
                              f"(score {lc.score(r)}): moving {lc.elems[e]!r} ({how[0]} at {how[1]}) improves the score by "
                              f"{gain} > 0.001", sub, observed={"moved": lc.elems[e], "gain": gain}, expected="<= 0.001")
            else:
                ctx.nontrivial({"n": case["n"], "m": case["m"], "cfg": cfg, "d": gen.digest(case["ds"])})


def check_case(case, ctx):
    """the case's dataset, then the same rankings in another order (other element ids, equal as a multiset) given to the
    same algorithm objects right afterwards"""
    if case.get("dcls") == "xlarge":
        return check_xlarge(case, ctx)
    ds = case["ds"]
    shared = libx.mk_dataset(ds)
    judge(case, ctx, ds, dataset=shared)
    # history: the Dataset object the BioConsert objects have just used is mutated in place (or a dataset derived from it
    # is) and searched again: local optimality is judged against the rankings it holds now
    if len(ref.universe(ds)) >= 2 and case["libseed"] % 2 == 0:
        import random
        r2 = random.Random(case["libseed"])
        kind, ok = algos.mutate_in_place(shared, ds, r2)
        st_now, now = call(libx.raw_dataset, shared)
        if ok and st_now == "ok" and ref.universe(now):
            ctx.count("runs_after_in_place_mutation")
            ctx.count("history:" + kind)
            judge({**case, "after": kind, "original_ds": ds}, ctx, now, dataset=shared)
    if len(ds) >= 2:
        k = 1 + case["libseed"] % (len(ds) - 1)
        ctx.count("second_calls_on_reordered_rankings")
        judge({**case, "reordered_from": ds}, ctx, ds[k:] + ds[:k])


def judge(case, ctx, ds, dataset=None):
    sch = case["scheme"]
    common.set_case(ctx, case)
    if dataset is None:
        dataset = libx.mk_dataset(ds)
    scheme = libx.mk_scheme(sch)
    elems = ref.universe(ds)
    table = ref.cost_table(ds, sch, elems)
    complete = ref.is_complete(ds)
    inputs = {ref.canon(r) for r in ref.unify(ds)}
    ctx.count("scheme:" + case.get("scls", "?"))
    for cfg in dict.fromkeys(case["configs"]):
        sub = {"ds": ds, "scheme": sch, "configs": [cfg], "libseed": case["libseed"]}
        if "reordered_from" in case:
            sub["previous_call_on"] = case["reordered_from"]
        if "after" in case:
            sub["after"], sub["original_ds"] = case["after"], case["original_ds"]
        # both values of return_at_most_one_ranking (the value BioConsert's callers ParCons / a nesting BioConsert pass is True)
        one = (case["libseed"] // 7) % 2 == 1
        ctx.count("runs_asking_for_one_ranking" if one else "runs_asking_for_all_rankings")
        st, cons, _ = algos.run_config(cfg, dataset, scheme, one, case["libseed"])
        if st != "ok":
            if st == "exc" and algos.refusal_is_documented(cfg, cons, complete, False):
                ctx.count("refused")
                continue
            ctx.violation(f"C08/raises-{type(cons).__name__}", f"{cfg} raised {exc_desc(cons)}", sub)
            continue
        ctx.count("runs:" + cfg)
        ctx.unit()
        try:
            rankings = [libx.raw_ranking(r) for r in cons.consensus_rankings]
        except Exception:      # pylint: disable=broad-except
            continue
        for r in rankings:
            if not common.wellformed_raw(r, elems):
                ctx.count("ill_formed_left_to_C03")
                continue
            base = ref.kemeny_from_table(r, table)
            ctx.count("rankings_checked")
            worst = None
            for e, desc, moved in ref.single_moves(r):
                ctx.count("moves_priced")
                delta = ref.kemeny_from_table(moved, table) - base
                if worst is None or delta < worst[0]:
                    worst = (delta, e, desc, moved)
            if worst is not None:
                d = float(worst[0])
                if d < -THRESHOLD - 1e-9:
                    kind = worst[2][0]
                    ctx.violation(f"C08/improving-move-left:{kind}", f"{cfg}: moving {worst[1]!r} ({kind} at {worst[2][1]}) "
                                  f"in returned ranking {r} improves the score by {-d} > 0.001", sub,
                                  observed={"ranking": r, "moved": worst[3], "delta": d}, expected=">= -0.001")
                elif d < 0:
                    ctx.count("gain_left_below_threshold")
                elif d == 0:
                    ctx.count("tight_zero_moves")
            if len(r) >= 2 and any(len(b) >= 2 for b in r) and ref.canon(r) not in inputs:
                ctx.nontrivial({**sub, "ranking": ref.canon_sorted(r)})
                ctx.sample({**sub, "returned": r, "score": float(base),
                            "best_single_move_delta": None if worst is None else float(worst[0])}, key=cfg)


def reach(counters, tier, info):
    k = 0.5 if tier == "quick" else 12
    out = []
    for name, key, need in [("returned rankings checked", "rankings_checked", 1200 * k),
                            ("single moves priced", "moves_priced", 100000 * k),
                            ("threshold-scale scheme cases", "scheme:S8", 100 * k),
                            ("second calls of the same objects on the same rankings in another order",
                             "second_calls_on_reordered_rankings", 800 * k),
                            ("gains below the threshold legitimately left on the table", "gain_left_below_threshold", 5 * k),
                            ("Dataset objects searched again after an in-place mutation", "runs_after_in_place_mutation", 400 * k),
                            ("... where the step is remove_empty_rankings", "history:remove_empty", 20 * k),
                            ("rankings over 63-1025 elements / 40-257 rankings checked (vectorised reference)",
                             "xlarge_rankings_checked", 12 if tier == "quick" else 60),
                            ("... with a score above 2^31 / 1000", "xlarge_rankings_with_score_above_2^31/1000",
                             2 if tier == "quick" else 8)]:
        v = counters.get(key, 0)
        out.append({"name": name, "observed": v, "required": need, "ok": v >= need})
    for cfg in CONFIGS:
        v = counters.get("runs:" + cfg, 0)
        out.append({"name": f"runs of {cfg}", "observed": v, "required": 50 * k, "ok": v >= 50 * k})
    v = counters.get("negative_index_events_in_interpreted_kernels", 0)
    out.append({"name": "negative (wrap-around) indices used on the kernels' work arrays in interpreted mode (advisory)",
                "observed": v, "required": 0, "ok": v == 0, "gating": False})
    out += anchors.reach(info, [(FILES[0], 42, 66, "_search_to_change_bucket"), (FILES[0], 82, 86, "_change_bucket"),
                                (FILES[0], 101, 123, "_search_to_add_bucket"), (FILES[0], 139, 160, "_add_bucket"),
                                (FILES[0], 165, 196, "_compute_delta_costs"), (FILES[0], 201, 235, "_improve_one_ranking")],
                         # 46: change[bucket_elem] is never written (staying put costs 0): unreachable; 207: bare annotation
                         allowed_missing={(FILES[0], 46), (FILES[0], 207)})
    return out
