"""
Monitors shared by several properties: contracts attached to the real functions (icontract) that
record what they observe and judge it against the reference model.

All monitors read public accessors only.  Outside replay mode the condition functions record and
return True (a raising contract would abort the execution under observation); in replay mode the
context raises at the first violation.
"""
import math

import icontract

import corankco as ck
from corankco.algorithms.pairwisebasedalgorithm import PairwiseBasedAlgorithm
from vf import ref, libx
from vf.core import jsonable


class PostBroken(Exception):
    pass


class InvariantBroken(Exception):
    pass


STATE = {"ctx": None, "case": None}


def set_case(ctx, case):
    STATE["ctx"] = ctx
    STATE["case"] = case


def close(a, b, exact, tol=1e-9):
    """a: library number, b: Fraction"""
    if a is None:
        return False
    try:
        fa = float(a)
    except (TypeError, ValueError):
        return False
    if math.isnan(fa) or math.isinf(fa):
        return False
    if exact:
        return ref.fr(fa) == b
    fb = float(b)
    return abs(fa - fb) <= tol * max(1.0, abs(fb))


def scheme_raw(scheme):
    pv = scheme.penalty_vectors
    return [list(pv[0]), list(pv[1])]


# ---------------------------------------------------------------------------------------------
# C01: contract on KemenyComputingFactory.get_kemeny_score


def score_matches_definition(self, ranking, dataset, result):
    ctx = STATE["ctx"]
    if ctx is None:
        return True
    ctx.count("contract:get_kemeny_score")
    sch = scheme_raw(self.scoring_scheme)
    cand = libx.raw_ranking_iter(ranking)
    ds = libx.raw_dataset(dataset)
    from vf import gen
    exact = gen.is_dyadic(sch)
    if sum(len(b) for b in cand) > 60 and exact:
        # large candidates: the vectorised reference (exact on dyadic penalties, cross-checked against the Fraction model)
        from vf import refnp
        expected = refnp.kemeny(cand, ds, sch)
    else:
        expected = ref.kemeny(cand, ds, sch)
    if not close(result, expected, exact):
        ctx.violation("C01/score-differs-from-definition",
                      "get_kemeny_score returned a value different from the pairwise-penalty definition",
                      {"ds": ds, "scheme": sch, "cand": cand, "via": "contract"},
                      observed=result, expected=expected)
    return True


def install_kemeny_contract():
    cls = ck.KemenyComputingFactory
    if getattr(cls.get_kemeny_score, "_vf_wrapped", False):
        return
    wrapped = icontract.ensure(score_matches_definition, error=PostBroken)(cls.get_kemeny_score)
    wrapped._vf_wrapped = True
    cls.get_kemeny_score = wrapped


# ---------------------------------------------------------------------------------------------
# C02: contract on PairwiseBasedAlgorithm.pairwise_cost_matrix (recorder: judged by the caller
# that knows which dataset the position matrix came from)

COST_CALLS = []


def record_cost_matrix(positions, scoring_scheme, result):
    ctx = STATE["ctx"]
    if ctx is None:
        return True
    ctx.count("contract:pairwise_cost_matrix")
    if len(COST_CALLS) < 64 and positions.shape[0] <= 200:
        COST_CALLS.append((positions.copy(), scheme_raw(scoring_scheme), result.copy()))
    return True


def install_cost_matrix_recorder():
    fn = PairwiseBasedAlgorithm.__dict__.get("pairwise_cost_matrix")
    if fn is None:
        return
    raw = fn.__func__ if isinstance(fn, staticmethod) else fn
    if getattr(raw, "_vf_wrapped", False):
        return
    wrapped = icontract.ensure(record_cost_matrix, error=PostBroken)(raw)
    wrapped._vf_wrapped = True
    PairwiseBasedAlgorithm.pairwise_cost_matrix = staticmethod(wrapped)


def table_from_positions(positions, sch):
    """reference cost table computed from a position / bucket-id matrix (-1 = unranked):
    rows = element ids, columns = rankings"""
    n, m = positions.shape
    ds = []
    for j in range(m):
        col = {}
        for i in range(n):
            p = int(positions[i][j])
            if p != -1:
                col.setdefault(p, []).append(i)
        ds.append([col[k] for k in sorted(col)])
    return ref.cost_table(ds, sch, list(range(n)))


# ---------------------------------------------------------------------------------------------
# C03: well-formedness of a consensus


def consensus_problems(consensus, dataset, at_most_one):
    """list of (signature, description) of the ways a consensus is ill-formed w.r.t. C03"""
    probs = []
    try:
        rankings = consensus.consensus_rankings
    except Exception as exc:      # pylint: disable=broad-except
        return [("C03/no-rankings", f"consensus_rankings not readable: {exc!r}")]
    if not isinstance(rankings, list) or len(rankings) < 1:
        return [("C03/no-ranking-returned", f"{len(rankings) if isinstance(rankings, list) else rankings!r} rankings")]
    if at_most_one and len(rankings) != 1:
        probs.append(("C03/more-than-one-ranking", f"{len(rankings)} rankings returned although at most one asked"))
    # "the set of elements that appear in the dataset": read from the rankings themselves, not from the Dataset's own
    # summary of them (whose consistency is C16's business and which aliasing or a stale cache may have corrupted)
    uni_keys = {(type(e.value), e.value) for rk in dataset.rankings for b in rk.buckets for e in b}
    for r in rankings:
        if not isinstance(r, ck.Ranking):
            probs.append(("C03/not-a-ranking", f"{type(r).__name__} in consensus_rankings"))
            continue
        seen = {}
        for b in r:
            if len(b) == 0:
                probs.append(("C03/empty-bucket", f"empty bucket in {r}"))
            for e in b:
                if not isinstance(e, ck.Element):
                    probs.append(("C03/not-an-element", f"{e!r} of type {type(e).__name__} in {r}"))
                    continue
                key = (type(e.value), e.value)
                if e.type is not type(e.value):
                    probs.append(("C03/element-type-mismatch", f"{e!r} declares {e.type}"))
                if key in seen:
                    probs.append(("C03/overlapping-buckets", f"{e!r} twice in {r}"))
                seen[key] = True
        if set(seen) != uni_keys:
            missing = sorted(map(repr, uni_keys - set(seen)))[:5]
            extra = sorted(map(repr, set(seen) - uni_keys))[:5]
            probs.append(("C03/wrong-element-set", f"missing={missing} extra={extra} in {r}"))
    return probs


def wellformed_raw(raw_cons, uni):
    """same on a raw ranking"""
    seen = set()
    for b in raw_cons:
        if not b:
            return False
        for e in b:
            if e in seen:
                return False
            seen.add(e)
    return seen == set(uni)


# ---------------------------------------------------------------------------------------------
# C16: structural invariants of Ranking and Dataset (public accessors only)


def ranking_problems(r):
    """ways in which a Ranking's views disagree with its buckets"""
    probs = []
    buckets = r.buckets
    pos_expected = {}
    p = 1
    for b in buckets:
        for e in b:
            pos_expected[(type(e.value), e.value)] = p
        p += len(b)
    got = {(type(e.value), e.value): v for e, v in r.positions.items()}
    if got != pos_expected:
        probs.append(("C16/ranking-positions-disagree-with-buckets",
                      f"positions={sorted(map(repr, got.items()))[:8]} expected={sorted(map(repr, pos_expected.items()))[:8]}"))
    dom = {(type(e.value), e.value) for e in r.domain}
    if dom != set(pos_expected):
        probs.append(("C16/ranking-domain-disagrees-with-buckets", f"domain={sorted(map(repr, dom))[:8]}"))
    if r.nb_elements != len(pos_expected):
        probs.append(("C16/ranking-nb-elements-disagrees", f"nb_elements={r.nb_elements} buckets hold {len(pos_expected)}"))
    if len(r) != len(buckets) or [set(b) for b in r] != [set(b) for b in buckets]:
        probs.append(("C16/ranking-len-or-iter-disagrees", f"len={len(r)} buckets={len(buckets)}"))
    if sum(len(b) for b in buckets) != len(pos_expected):
        probs.append(("C16/ranking-buckets-overlap", str(r)))
    for b in buckets:
        # (an empty bucket is not a disagreement between views: the constructor accepts it, and the derived constructions
        # that must not produce one -- unification, projection -- are compared with their model bucket by bucket)
        for e in b:
            if not isinstance(e, ck.Element) or e.type is not type(e.value):
                probs.append(("C16/ranking-bad-element", repr(e)))
    return probs


def dataset_problems(d):
    """ways in which a Dataset's reported views disagree with its rankings"""
    probs = []
    rankings = d.rankings
    for r in rankings:
        for sig, what in ranking_problems(r):
            probs.append((sig, "in a ranking of the dataset: " + what))
    uni = set()
    for r in rankings:
        for b in r.buckets:
            for e in b:
                uni.add((type(e.value), e.value))
    reported = {(type(e.value), e.value) for e in d.universe}
    if reported != uni:
        probs.append(("C16/universe-differs-from-union-of-domains",
                      f"universe={sorted(map(repr, reported))[:8]} union={sorted(map(repr, uni))[:8]}"))
    n = len(uni)
    if d.nb_elements != n:
        probs.append(("C16/nb-elements-differs", f"nb_elements={d.nb_elements} union has {n}"))
    if d.nb_rankings != len(rankings):
        probs.append(("C16/nb-rankings-differs", f"{d.nb_rankings} vs {len(rankings)}"))
    e2i = {(type(e.value), e.value): i for e, i in d.mapping_elem_id.items()}
    i2e = {i: (type(e.value), e.value) for i, e in d.mapping_id_elem.items()}
    if set(e2i) != uni:
        probs.append(("C16/elem-id-map-keys-differ-from-universe",
                      f"keys={sorted(map(repr, set(e2i)))[:8]} universe={sorted(map(repr, uni))[:8]}"))
    if sorted(e2i.values()) != list(range(len(e2i))):
        probs.append(("C16/elem-ids-not-0..n-1", f"ids={sorted(e2i.values())[:12]}"))
    if set(i2e) != set(range(n)):
        if any(i >= n for i in i2e):
            probs.append(("C16/stale-id-in-id-elem-map", f"mapping_id_elem has keys {sorted(i2e)[:12]} but n={n}"))
        else:
            probs.append(("C16/id-elem-map-keys-not-0..n-1", f"keys={sorted(i2e)[:12]} n={n}"))
    for k, i in e2i.items():
        if i2e.get(i) != k:
            probs.append(("C16/id-maps-not-inverse", f"elem {k!r} -> {i} -> {i2e.get(i)!r}"))
            break
    types = {k[0] for k in uni}
    if len(types) > 1:
        probs.append(("C16/heterogeneous-element-types", f"{types}"))
    elif types:
        all_intlike = all(ref.int_like(v) for _, v in uni) and len({int(v) for _, v in uni}) == len(uni)
        t = next(iter(types))
        if all_intlike and t is not int:
            probs.append(("C16/int-like-names-kept-as-str", f"{sorted(map(repr, uni))[:6]}"))
        if not all_intlike and t is not str:
            probs.append(("C16/non-int-names-typed-int", f"{sorted(map(repr, uni))[:6]}"))
    complete = all({(type(e.value), e.value) for b in r.buckets for e in b} == uni for r in rankings)
    if bool(d.is_complete) != complete:
        probs.append(("C16/is-complete-flag-wrong", f"flag={d.is_complete} actual={complete}"))
    noties = all(len(b) <= 1 for r in rankings for b in r.buckets)
    if bool(d.without_ties) != noties:
        probs.append(("C16/without-ties-flag-wrong", f"flag={d.without_ties} actual={noties}"))
    # matrices
    if set(e2i) == uni and sorted(e2i.values()) == list(range(n)):
        try:
            pos = d.get_positions()
            bid = d.get_bucket_ids()
        except Exception as exc:      # pylint: disable=broad-except
            probs.append(("C16/matrix-accessor-raises", repr(exc)))
            return probs
        if pos.shape != (n, len(rankings)) or bid.shape != (n, len(rankings)):
            probs.append(("C16/matrix-shape-wrong", f"{pos.shape} {bid.shape} expected {(n, len(rankings))}"))
        else:
            for j, r in enumerate(rankings):
                exp_pos = [-1] * n
                exp_bid = [-1] * n
                before = 0
                for bi, b in enumerate(r.buckets):
                    for e in b:
                        i = e2i[(type(e.value), e.value)]
                        exp_pos[i] = before
                        exp_bid[i] = bi
                    before += len(b)
                if [int(x) for x in pos[:, j]] != exp_pos:
                    probs.append(("C16/positions-matrix-disagrees", f"ranking {j}: {list(pos[:, j])} expected {exp_pos}"))
                    break
                if [int(x) for x in bid[:, j]] != exp_bid:
                    probs.append(("C16/bucket-ids-matrix-disagrees", f"ranking {j}: {list(bid[:, j])} expected {exp_bid}"))
                    break
    return probs


INV_SEEN = {"ranking": 0, "dataset": 0}
INV_PROBLEMS = []


def ranking_views_agree(self):
    INV_SEEN["ranking"] += 1
    for p in ranking_problems(self):
        if len(INV_PROBLEMS) < 50:
            INV_PROBLEMS.append(p)
    return True


def dataset_views_agree(self):
    """light version evaluated by icontract after every public method (the full dataset_problems() is
    applied explicitly at the quiescent points of the histories): maps, universe and counts"""
    INV_SEEN["dataset"] += 1
    uni = set()
    for r in self.rankings:
        for b in r.buckets:
            for e in b:
                uni.add((type(e.value), e.value))
    n = len(uni)
    e2i = self.mapping_elem_id
    i2e = self.mapping_id_elem
    bad = None
    if {(type(e.value), e.value) for e in e2i} != uni:
        bad = ("C16/elem-id-map-keys-differ-from-universe", f"keys={sorted(map(repr, e2i))[:8]}")
    elif sorted(e2i.values()) != list(range(n)):
        bad = ("C16/elem-ids-not-0..n-1", f"ids={sorted(e2i.values())[:12]}")
    elif set(i2e) != set(range(n)):
        bad = ("C16/stale-id-in-id-elem-map" if any(i >= n for i in i2e) else "C16/id-elem-map-keys-not-0..n-1",
               f"mapping_id_elem has keys {sorted(i2e)[:12]} but n={n}")
    elif self.nb_elements != n:
        bad = ("C16/nb-elements-differs", f"nb_elements={self.nb_elements} union has {n}")
    if bad and len(INV_PROBLEMS) < 50:
        INV_PROBLEMS.append(bad)
    return True


def install_invariants():
    """icontract invariants on the real classes, evaluated after __init__ and after every public
    method; they record and return True"""
    if getattr(ck.Ranking, "_vf_inv", False):
        return
    icontract.invariant(ranking_views_agree, error=InvariantBroken)(ck.Ranking)
    icontract.invariant(dataset_views_agree, error=InvariantBroken)(ck.Dataset)
    ck.Ranking._vf_inv = True


def drain_invariant_problems():
    out = list(INV_PROBLEMS)
    INV_PROBLEMS.clear()
    return out


__all__ = ["jsonable"]
