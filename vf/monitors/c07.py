"""C07 -- the ParFront partition is respected by every optimal consensus; consistent_with is exact."""
from vf import gen, ref
from vf.core import call, exc_desc
from vf.lazy import ck, libx, common
from vf.monitors import algos

PROP = "C07"
TECHNIQUE = ('runtime monitoring: ParFront vs ParCons partitions judged against ALL minimisers enumerated by a DP oracle; consistent_with judged on generated pairs with known truth; composite block oracle (all optima as concatenations) for 11-40 elements; partition again after an in-place mutation; partitions of datasets pickled by another interpreter; datasets given non-uniform constructor weights')
RULE = ("cases = dataset (D11/D10 block structured with >= 3 components and cascading merges, D8, D9, D3; n<=7 quick, "
        "<=9 thorough; 8 % of the cases: 11-24 (thorough: -40) elements in ordered blocks, where the composite oracle "
        "ref.BlockOptimum knows every optimum as a concatenation of block minimisers when 'before' is strictly cheapest "
        "on every cross-block pair) x scheme (S1-S3, S6); oracle = subset DP with reconstruction of ALL minimisers (cases with more "
        "than 5000 optima are skipped and counted); plus generated (partition, consensus) pairs with known truth for "
        "consistent_with (matching, straddling bucket, swapped groups, foreign / missing element with equal counts); "
        "non-trivial = >= 3 ParCons groups or ParFront != ParCons; distinct = digest of (dataset, scheme)")
ASSUMPTIONS = ["reference model vf/ref.py", "dyadic penalties", "partitions given to consistent_with have non-empty groups"]
SUMMARY_KEYS = ["partitions", "parfront_differs", "first_group_merged", "optima_checked", "consistent_pairs"]
CRASH_IS_VIOLATION = False


def plan(tier, seed):
    if tier == "quick":
        return [{"n_cases": 170, "mode": "A", "hashseed": i % 2} for i in range(8)]
    return [{"n_cases": 2500, "mode": "A", "hashseed": i % 4} for i in range(16)]


def gen_case(rng, ctx):
    gen.OUTLIER["n_only_up_to"] = 9      # the exact oracle limits the number of elements; rankings are not limited
    thorough = ctx.tier == "thorough"
    nmax = (9 if rng.random() < 0.2 else 7) if thorough else (7 if rng.random() < 0.4 else 6)
    blocks = None
    if rng.random() < 0.08:
        # beyond the subset DP: 11-40 elements in ordered blocks of 1-5, judged by the composite oracle ref.BlockOptimum
        n = rng.choice([11, 12, 14, 16, 20, 24, 30, 40] if thorough else [11, 12, 13, 14, 16, 20, 24])
        cls = "blocks"
        ds, blocks = gen.block_dataset(rng, n)
        ei = ref.expected_type_is_int(ds)
        ds = libx.normalise_raw(ds)
        blocks = [[libx.lib_value(e, ei) for e in b] for b in blocks]
        scls, sch = gen.scheme(rng, "S1 S1 S2 S3 S3 S6 S11")
    elif rng.random() < 0.06:
        cls, ds = gen.dataset(rng, cls="D25", n=rng.choice([3, 4, 5, 6]), mmax=6)
        ds = libx.normalise_raw(ds)
        scls, sch = gen.scheme(rng, "S17 S17 S16 S1 S1 S2 S3")
    else:
        cls, ds = gen.dataset(rng, classes="D11 D11 D11 D10 D10 D8 D8 D9 D3 D2 D2 D7 D15 D14 D4 D4", nmax=nmax, mmax=6)
        ds = libx.normalise_raw(ds)
        scls, sch = gen.scheme(rng, "S1 S1 S2 S3 S3 S3 S6 S9 S11 S11 S12 S16 S16 S15 S15 S13")
    # (partition, consensus) pair for consistent_with
    uni = ref.universe(ds)
    base = gen.ranking_over(rng, uni, rng.choice([0.0, 0.3, 0.5]))
    kind = rng.choice(["matching", "matching", "straddle", "swapped", "foreign", "missing", "random"])
    return {"ds": ds, "scheme": sch, "dcls": cls, "scls": scls, "pair_kind": kind, "pair_base": base,
            "pair_seed": rng.randrange(10 ** 6), "blocks": blocks}


def raw_groups(groups):
    return [[e.value for e in g] for g in groups]


def make_pair(case):
    """(groups, consensus ranking) built from a base ranking, with a construction kind; truth = ref.respects"""
    import random
    rng = random.Random(case["pair_seed"])
    base = [list(b) for b in case["pair_base"]]
    kind = case["pair_kind"]
    # groups = unions of consecutive buckets
    groups = []
    for b in base:
        if groups and rng.random() < 0.5:
            groups[-1] = groups[-1] + list(b)
        else:
            groups.append(list(b))
    cons = [list(b) for b in base]
    if kind == "straddle" and len(groups) >= 2:
        # merge the last bucket of a group with the first bucket of the next one
        gi = rng.randrange(len(groups) - 1)
        last = set(groups[gi])
        idx = max(i for i, b in enumerate(cons) if set(b) <= last)
        if idx + 1 < len(cons):
            cons[idx] = cons[idx] + cons.pop(idx + 1)
    elif kind == "swapped" and len(groups) >= 2:
        gi = rng.randrange(len(groups) - 1)
        groups[gi], groups[gi + 1] = groups[gi + 1], groups[gi]
    elif kind == "foreign":
        # same number of elements, one replaced by a foreign one in the consensus
        flat = [e for b in cons for e in b]
        victim = rng.choice(flat)
        foreign = (max(flat) + 1) if all(isinstance(e, int) for e in flat) else "zz_foreign"
        cons = [[foreign if e == victim else e for e in b] for b in cons]
    elif kind == "missing" and sum(len(b) for b in cons) >= 2:
        flat = [e for b in cons for e in b]
        victim = rng.choice(flat)
        cons = [[e for e in b if e != victim] for b in cons]
        cons = [b for b in cons if b]
    elif kind == "random":
        flat = [e for b in cons for e in b]
        cons = gen.ranking_over(rng, flat, 0.3)
    return groups, cons


def judge_partitions(case, ctx, ds, dataset, scheme, base):
    sch = case["scheme"]
    elems = ref.universe(ds)
    st, pf = call(ck.OrderedPartition.parfront_partition, dataset, scheme)
    st2, pc = call(ck.OrderedPartition.parcons_partition, dataset, scheme)
    if st == "exc" or st2 == "exc":
        bad = pf if st == "exc" else pc
        ctx.violation(f"C07/partition-raises-{type(bad).__name__}", "partition computation raised " + exc_desc(bad), base)
    else:
        front, cons_groups = raw_groups(pf.partition), raw_groups(pc.partition)
        ctx.count("partitions")
        ctx.unit()
        if len(cons_groups) >= 3:
            ctx.count("parcons_ge3_groups")
        ok = True
        if not ref.is_partition_of(front, elems):
            ok = False
            ctx.violation("C07/parfront-not-a-partition", f"ParFront {front} is not a partition of the universe", base,
                          observed=front)
        elif not ref.is_partition_of(cons_groups, elems):
            ok = False
        elif not ref.coarsens_in_order(front, cons_groups):
            ok = False
            ctx.violation("C07/parfront-does-not-merge-consecutive-parcons-groups",
                          f"ParFront {front} is not obtained by merging consecutive groups of ParCons {cons_groups}",
                          base, observed=front, expected=cons_groups)
        if ok:
            differs = len(front) != len(cons_groups)
            if differs:
                ctx.count("parfront_differs")
                if len(front[0]) > len(cons_groups[0]):
                    ctx.count("first_group_merged")
            mins = None
            if case.get("blocks"):
                bo = ref.BlockOptimum(ds, sch, case["blocks"])
                if not bo.ok:
                    ctx.count("blocks_not_decomposable")
                else:
                    ctx.count("blocks_judged")
                    if bo.strict:
                        ctx.count("blocks_strict")
                        w = bo.optimum_violating(front)
                        if w == "unknown":
                            ctx.count("too_many_optima_skipped")
                        elif w is not None:
                            ctx.violation("C07/optimal-consensus-violates-parfront", f"the optimal consensus {w} (score "
                                          f"{float(bo.value)}) does not respect the ParFront partition {front} (ParCons: "
                                          f"{cons_groups})", base, observed=w, expected=front)
                        else:
                            ctx.count("block_optima_covered", min(bo.nb_optima(), 10 ** 6))
                    else:
                        # necessary condition only: if every optimal consensus respects ParFront, at least one does
                        br = bo.best_respecting(front)
                        if br is not None and br != bo.value:
                            ctx.violation("C07/optimal-consensus-violates-parfront", f"no optimal consensus respects the "
                                          f"ParFront partition {front}: best respecting = {float(br)}, optimum = "
                                          f"{float(bo.value)}", base, observed=br, expected=bo.value)
            else:
                dp = ref.optimum_dp(ds, sch, elems)
                mins = dp.minimisers(cap=5000)
                if mins is None:
                    ctx.count("too_many_optima_skipped")
            if mins is not None:
                ctx.count("optima_checked", len(mins))
                if len(mins) >= 2:
                    ctx.count("cases_with_several_optima")
                for r in mins:
                    if not ref.respects(r, front):
                        # mechanism: which group boundary is violated?
                        gpos = {e: i for i, g in enumerate(front) for e in g}
                        rpos = ref.bucket_index(r)
                        boundary = min(min(gpos[x], gpos[y]) for x in rpos for y in rpos
                                       if gpos[x] < gpos[y] and not rpos[x] < rpos[y])
                        sig = "C07/optimal-consensus-violates-parfront" + (":first-boundary" if boundary == 0 else "")
                        ctx.violation(sig, f"the optimal consensus {r} (score {float(dp.value)}) does not respect the "
                                      f"ParFront partition {front} (ParCons: {cons_groups})", base, observed=r,
                                      expected=front)
                        break
            if len(cons_groups) >= 3 or differs:
                ctx.nontrivial(base)
                ctx.sample({**base, "parcons": cons_groups, "parfront": front,
                            "nb_optima": None if mins is None else len(mins)}, key="d" + str(differs))


def check_case(case, ctx):
    ds, sch = case["ds"], case["scheme"]
    common.set_case(ctx, case)
    dataset = libx.mk_dataset(ds)
    scheme = libx.mk_scheme(sch)
    elems = ref.universe(ds)
    base = {"ds": ds, "scheme": sch}
    ctx.count("class:" + case.get("dcls", "?"))
    judge_partitions(case, ctx, ds, dataset, scheme, base)
    # history: the Dataset object just partitioned is mutated in place (or a dataset derived from it is) and partitioned
    # again: judged against the rankings it holds now
    if not case.get("blocks") and len(elems) >= 3 and (case["pair_seed"] % 3 == 0 or any(len(r) == 0 for r in ds)):
        import random
        r2 = random.Random(case["pair_seed"])
        kind, ok = algos.mutate_in_place(dataset, ds, r2)
        st_now, now = call(libx.raw_dataset, dataset)
        if ok and st_now == "ok" and len(ref.universe(now)) >= 2:
            ctx.count("runs_after_in_place_mutation")
            ctx.count("history:" + kind)
            judge_partitions({**case, "blocks": None}, ctx, now, dataset, scheme,
                             {"ds": now, "scheme": sch, "after": kind, "original_ds": ds})
    # -- a dataset pickled by another interpreter: its partition against a consensus built here ----------------------------
    if ctx.index < 10:
        batch = algos.pickled_batch(ctx)
        if ctx.index < len(batch):
            raw_p, d_p = batch[ctx.index]
            sch_p = libx.mk_scheme(ref.PRESETS["unifying"])
            stp, pf_p = call(ck.OrderedPartition.parfront_partition, d_p, sch_p)
            ctx.count("partitions_of_datasets_pickled_by_another_interpreter")
            if stp == "exc":
                ctx.violation(f"C07/partition-raises-{type(pf_p).__name__}", "parfront_partition raised on a dataset pickled "
                              "by another interpreter: " + exc_desc(pf_p), {"ds": raw_p, "pickled_elsewhere": True})
            else:
                groups_p = raw_groups(pf_p.partition)
                if ref.is_partition_of(groups_p, ref.universe(raw_p)):
                    # the ranking made of the groups themselves respects the partition by construction
                    stc, ans = call(lambda: pf_p.consistent_with(ck.Consensus([libx.mk_ranking(groups_p)])))
                    if stc == "exc" or ans is not True:
                        ctx.violation("C07/consistent-with-wrong:pickled-dataset", f"the partition {groups_p} of a dataset "
                                      f"pickled by another interpreter is reported inconsistent with the ranking made of its own "
                                      f"groups ({exc_desc(ans) if stc == 'exc' else ans})", {"ds": raw_p, "pickled_elsewhere": True},
                                      observed=repr(ans), expected=True)
                else:
                    ctx.violation("C07/parfront-not-a-partition", f"ParFront {groups_p} of a dataset pickled by another "
                                  "interpreter is not a partition of its universe", {"ds": raw_p, "pickled_elsewhere": True})
    # -- consistent_with ------------------------------------------------------------------------------
    groups, cons = make_pair(case)
    truth = ref.respects(cons, groups)
    pair = {"groups": groups, "consensus": cons, "kind": case["pair_kind"]}
    for with_dataset in (False, True):
        def run():
            part = ck.OrderedPartition([{ck.Element(e) for e in g} for g in groups])
            ranking = libx.mk_ranking(cons)
            if with_dataset:
                consensus = ck.Consensus([ranking], dataset=libx.mk_dataset([cons]), scoring_scheme=scheme)
            else:
                consensus = ck.Consensus([ranking])
            return part.consistent_with(consensus)
        st3, got = call(run)
        ctx.count("consistent_pairs")
        ctx.unit()
        ctx.count(f"pair:{case['pair_kind']}:{truth}")
        if st3 == "exc":
            ctx.violation(f"C07/consistent-with-raises-{type(got).__name__}", "consistent_with raised " + exc_desc(got),
                          pair, expected=truth)
        elif bool(got) != truth or not isinstance(got, bool):
            ctx.violation(f"C07/consistent-with-wrong:{case['pair_kind']}", f"consistent_with returned {got!r} for "
                          f"partition {groups} and consensus {cons}", pair, observed=got, expected=truth)
        if case["pair_kind"] != "matching":
            ctx.nontrivial(pair)


def reach(counters, tier, info):
    k = 0.5 if tier == "quick" else 20
    out = []
    for name, key, need in [("cases with >= 3 ParCons groups", "parcons_ge3_groups", 300 * k),
                            ("cases where ParFront != ParCons", "parfront_differs", 100 * k),
                            ("cases where the first group takes part in a merge", "first_group_merged", 50 * k),
                            ("optimal consensuses checked against ParFront", "optima_checked", 2000 * k),
                            ("cases with several optima", "cases_with_several_optima", 100 * k),
                            ("consistent_with pairs judged", "consistent_pairs", 1000 * k),
                            ("partitions of string-named datasets pickled by an interpreter with another hash seed",
                             "partitions_of_datasets_pickled_by_another_interpreter", 40 if tier == "quick" else 100),
                            ("Dataset objects partitioned again after an in-place mutation", "runs_after_in_place_mutation", 150 * k),
                            ("datasets of 11+ elements judged by the composite block oracle (all optima known)",
                             "blocks_strict", 20 * k)]:
        v = counters.get(key, 0)
        out.append({"name": name, "observed": v, "required": need, "ok": v >= need})
    for kind in ("matching", "straddle", "swapped", "foreign", "missing"):
        t = counters.get(f"pair:{kind}:True", 0)
        f = counters.get(f"pair:{kind}:False", 0)
        need = 60 * k
        want_true = kind == "matching"
        v = t if want_true else f
        out.append({"name": f"consistent_with pairs of kind {kind} with expected answer {want_true}", "observed": v,
                    "required": need, "ok": v >= need})
    return out
