"""C17 -- Dataset equality means same multiset of rankings, nothing else."""
import random

from vf import gen, ref
from vf.core import call, exc_desc
from vf.lazy import ck, libx, common

PROP = "C17"
TECHNIQUE = ('runtime monitoring of == on pairs generated with their ground truth (hash-colliding members, hash-twin ints, delimiters in names, multiplicities), symmetry / reflexivity, compare-mutate-compare histories; empty-bucket pairs; comparison again after a refused mutation and after non-mutating use; pairs of 63-1025 elements; pairs with recombined places (every element keeps its multiset of places, the rankings differ); one operand an instance of a sub-class of Dataset')
RULE = ("pairs generated WITH their ground truth: from a raw dataset A, B is derived by permuting the rankings, re-inserting "
        "bucket members in another order (members that collide in small hash tables, so that set iteration order really "
        "differs: verified on the library objects), renaming the dataset, duplicating / dropping one ranking, moving one "
        "element, swapping two buckets, splitting a name on its comma / space; expected = equality of the multisets of "
        "canonical rankings after the library's own int/str normalisation; also symmetry, reflexivity, agreement with "
        "Ranking equality; non-trivial = equal pairs whose textual forms differ, or near-misses; distinct = digest of (A, B)")
ASSUMPTIONS = ["ground truth by construction + reference multiset equality", "PYTHONHASHSEED in {0,1,2,3} (string "
               "collisions depend on it)"]
SUMMARY_KEYS = ["pairs", "equal_text_differs", "near_misses"]
CRASH_IS_VIOLATION = False
KINDS = ["permute", "reinsert", "reinsert", "rename", "duplicate", "drop", "move", "swap", "comma", "space", "multiplicity",
         "int-vs-str", "other", "hash-twin", "empty-bucket", "empty-bucket-both", "recombine", "recombine"]


def plan(tier, seed):
    if tier == "quick":
        return [{"n_cases": 700, "mode": "A", "hashseed": i % 4} for i in range(8)]
    return [{"n_cases": 12000, "mode": "A", "hashseed": i % 8} for i in range(12)]


def colliding_names(rng, n, strings):
    """names that collide in an 8-slot hash table (the size CPython gives to small sets)"""
    if not strings:
        base = rng.randrange(8)
        step = rng.choice([8, 16, 32])
        return [base + step * i for i in range(n)]
    slot = rng.randrange(8)
    out = []
    i = 0
    while len(out) < n and i < 5000:
        s = f"{rng.choice('abcdefgh')}{i}"
        if hash(s) & 7 == slot:
            out.append(s)
        i += 1
    return out


def gen_case(rng, ctx):
    if rng.random() < 0.012:
        # large datasets (63-1025 elements, up to 20 rankings): shortcuts that compare sizes, hashes or digests first
        n = rng.choice(gen.THRESHOLD_SIZES)
        A, _base = gen.large_dataset(rng, n, rng.choice([2, 3, 5, 20]))
        kind = rng.choice(["permute", "reinsert", "duplicate", "drop", "move", "swap", "multiplicity", "empty-bucket", "rename"])
        return {"A": A, "kind": kind, "seed": rng.randrange(10 ** 6), "strings": False, "large": n}
    strings = rng.random() < 0.5
    n = rng.randint(1, 8)
    special = rng.random()
    if not strings and special < 0.15:
        # ints whose CPython hashes coincide: hash(-1) == hash(-2); x and x + (2^61 - 1)
        pool = [-1, -2, 1, 1 + (2 ** 61 - 1), 5, 5 + (2 ** 61 - 1), -3, 0, 2 ** 61 - 1, 7]
        names = rng.sample(pool, min(n, len(pool)))
    elif not strings and special < 0.25:
        names = rng.sample(range(-20, 20), n)
    elif rng.random() < 0.6:
        names = colliding_names(rng, n, strings)
    else:
        _, names = gen.element_names(rng, n, "str" if strings else "bigint")
    m = rng.randint(1, 6)
    cls, A = gen.dataset(rng, classes="D2 D2 D3 D4 D6", names=names, n=len(names), m=m)
    kind = rng.choice(KINDS)
    return {"A": A, "kind": kind, "seed": rng.randrange(10 ** 6), "strings": strings}


def derive(case):
    rng = random.Random(case["seed"])
    A = [[list(b) for b in r] for r in case["A"]]
    B = [[list(b) for b in r] for r in A]
    kind = case["kind"]
    name_a, name_b = "None", "None"
    if kind == "permute":
        rng.shuffle(B)
    elif kind == "reinsert":
        B = [[list(reversed(b)) for b in r] for r in B]
        if rng.random() < 0.5:
            rng.shuffle(B)
    elif kind == "rename":
        name_b = "another name"
    elif kind in ("duplicate", "multiplicity"):
        B.append([list(b) for b in rng.choice(B)])
        if kind == "multiplicity":
            # same size: A gets a copy of another ranking when possible
            A.append([list(b) for b in rng.choice(A)])
    elif kind == "drop" and len(B) > 1:
        B.pop(rng.randrange(len(B)))
    elif kind == "move":
        i = rng.randrange(len(B))
        B[i] = gen.perturb(rng, B[i], 1)
    elif kind == "swap":
        cand = [i for i, r in enumerate(B) if len(r) >= 2]
        if cand:
            i = rng.choice(cand)
            j = rng.randrange(len(B[i]) - 1)
            B[i][j], B[i][j + 1] = B[i][j + 1], B[i][j]
    elif kind in ("comma", "space"):
        sep = "," if kind == "comma" else " "
        joined = "x" + sep + "y"
        # A holds one element named "x,y" ("x y"), B holds two elements x and y (resp. one element "xy")
        A = [[[joined], ["w"]]] + [[list(map(str, b)) for b in r] for r in A if False]
        B = [[["x", "y"], ["w"]]] if kind == "comma" else [[["xy"], ["w"]]]
    elif kind in ("empty-bucket", "empty-bucket-both"):
        # rankings may hold empty buckets (the constructor accepts them): one more, one fewer or one elsewhere makes another
        # ranking ("same buckets in the same order"); the same empty bucket on both sides does not
        i = rng.randrange(len(B))
        pos = rng.randint(0, len(B[i]))
        B[i] = B[i][:pos] + [[]] + B[i][pos:]
        if kind == "empty-bucket-both":
            A[i] = A[i][:pos] + [[]] + A[i][pos:]
            if rng.random() < 0.5:
                rng.shuffle(B)
        elif rng.random() < 0.3:
            # both hold one empty bucket, at different places
            pos2 = (pos + 1 + rng.randrange(max(1, len(A[i])))) % (len(A[i]) + 1)
            A[i] = A[i][:pos2] + [[]] + A[i][pos2:]
    elif kind == "recombine":
        # A = [P1 + S1, P2 + S2], B = [P1 + S2, P2 + S1] (+ the same other rankings): every element keeps, over the whole dataset,
        # the same places and the same neighbours' counts -- only the rankings themselves differ
        elems = ref.universe(A)
        if len(elems) >= 4:
            cut = rng.randint(2, len(elems) - 2)
            X, Y = elems[:cut], elems[cut:]
            def two(part):
                a = gen.ranking_over(rng, part, 0.0)
                b = [list(x) for x in a]
                i = rng.randrange(len(b) - 1)
                b[i], b[i + 1] = b[i + 1], b[i]
                return a, b
            P1, P2 = two(X)
            S1, S2 = two(Y)
            rest = [[list(b) for b in r] for r in A[2:]]
            A = [P1 + S1, P2 + S2] + rest
            B = [P1 + S2, P2 + S1] + [[list(b) for b in r] for r in rest]
            if rng.random() < 0.5:
                rng.shuffle(B)
    elif kind == "int-vs-str":
        B = [[[str(e) for e in b] for b in r] for r in B]
    elif kind == "hash-twin":
        # replace one int by another int with the same CPython hash (near miss by construction)
        flat = [e for r in B for b in r for e in b if isinstance(e, int)]
        if flat:
            victim = rng.choice(flat)
            twin = {-1: -2, -2: -1}.get(victim, victim + (2 ** 61 - 1) if victim >= 0 else victim - (2 ** 61 - 1))
            if twin not in flat:
                B = [[[twin if e == victim else e for e in b] for b in r] for r in B]
    elif kind == "other":
        _, B = gen.dataset(rng, classes="D2 D3", names=ref.universe(A) or [0], n=len(ref.universe(A)) or 1, m=len(A))
    return A, B, name_a, name_b


def check_case(case, ctx):
    common.set_case(ctx, case)
    A, B, name_a, name_b = derive(case)
    if not ref.universe(A) or not ref.universe(B):
        return
    expected = ref.dataset_multiset(libx.normalise_raw(A)) == ref.dataset_multiset(libx.normalise_raw(B))
    sub = {"A": A, "B": B, "kind": case["kind"]}
    st, da = call(libx.mk_dataset, A, name_a)
    if gen.digest([A, B])[0] in "01":
        # one operand is an instance of a user-defined sub-class of Dataset (built by the inherited class method)
        ctx.count("pairs_with_a_subclass_instance")
        sub_cls = libx.dataset_subclass()
        st2, db = call(lambda: sub_cls.from_raw_list([[set(b) for b in r] for r in B], name_b))
    else:
        st2, db = call(libx.mk_dataset, B, name_b)
    if st == "exc" or st2 == "exc":
        ctx.count("not_constructible")
        return
    ctx.count("pairs")
    ctx.count(f"kind:{case['kind']}:{expected}")
    if case.get("large"):
        ctx.count("large_pairs")
        ctx.count(f"large_pairs:{expected}")
        sub = {"A": A, "B": B, "kind": case["kind"], "large": case["large"]}
    text_differs = str(da) != str(db)
    results = {}
    for label, fn in (("a==b", lambda: da == db), ("b==a", lambda: db == da), ("a==a", lambda: da == da),
                      ("b==b", lambda: db == db), ("a!=b", lambda: da != db)):
        st, got = call(fn)
        if st == "exc":
            ctx.violation(f"C17/equality-raises-{type(got).__name__}", f"{label} raised {exc_desc(got)}", sub)
            return
        results[label] = got
    if results["a==a"] is not True or results["b==b"] is not True:
        ctx.violation("C17/not-reflexive", f"a dataset is not equal to itself: {results}", sub)
    if results["a==b"] != results["b==a"]:
        ctx.violation("C17/not-symmetric", f"a==b is {results['a==b']} but b==a is {results['b==a']}", sub)
    if bool(results["a==b"]) == bool(results["a!=b"]):
        ctx.violation("C17/eq-and-ne-agree", f"a==b and a!=b both {results['a==b']}", sub)
    if bool(results["a==b"]) != expected:
        if expected:
            mech = "equal-datasets-reported-different"
            if text_differs and ref.dataset_multiset([[sorted(map(str, b)) for b in r] for r in libx.normalise_raw(A)]) == \
                    ref.dataset_multiset([[sorted(map(str, b)) for b in r] for r in libx.normalise_raw(B)]):
                mech += ":bucket-members-iterated-in-another-order"
        else:
            mech = "different-datasets-reported-equal"
            if case["kind"] in ("comma", "space"):
                mech += ":names-with-delimiters"
        ctx.violation("C17/" + mech, (f"{A} == {B}" if not case.get("large") else f"two datasets of {case['large']} elements "
                      f"({case['kind']})") + f" returned {results['a==b']}, expected {expected} ({case['kind']})", sub,
                      observed=results["a==b"], expected=expected)
    # a Dataset never equals something that is not a Dataset (and the comparison does not fail)
    for other in (None, 0, "text", [list(map(set, r)) for r in A], da.rankings, str(da)):
        for label, fn in (("a==x", lambda o=other: da == o), ("x==a", lambda o=other: o == da), ("a!=x", lambda o=other: da != o)):
            stq, got = call(fn)
            ctx.count("comparisons_with_non_datasets")
            if stq == "exc":
                ctx.violation(f"C17/equality-raises-{type(got).__name__}", f"{label} with a {type(other).__name__} raised "
                              f"{exc_desc(got)}", sub)
                break
            if bool(got) != (label == "a!=x"):
                ctx.violation("C17/dataset-equal-to-a-non-dataset", f"{label} with {other!r} returned {got}", sub,
                              observed=got, expected=label == "a!=x")
                break
    # elements of one type: equal exactly when they hold the same value; equal elements hash alike; an Element equals the
    # raw int / str it holds (as its docstring says)
    names = [e for e in ref.universe(A)][:4] + [e for e in ref.universe(B)][:2]
    for x in names:
        for y in names:
            stq, res = call(lambda: (ck.Element(x) == ck.Element(y), hash(ck.Element(x)) == hash(ck.Element(y)),
                                     ck.Element(x) == y, ck.Element(x) != ck.Element(y)))
            ctx.count("element_pairs")
            if stq == "exc":
                ctx.violation(f"C17/element-equality-raises-{type(res).__name__}", exc_desc(res), {**sub, "x": x, "y": y})
                break
            eq, same_hash, eq_raw, ne = res
            if type(x) is not type(y):
                # an int and a str: what the statement requires is only that == and != are opposite and agree both ways
                stq2, eq_rev = call(lambda: ck.Element(y) == ck.Element(x))
                want = bool(eq)
                if stq2 == "ok" and bool(eq_rev) == bool(eq) and bool(ne) != bool(eq):
                    continue
            else:
                want = x == y
            if bool(eq) != want or bool(ne) == want or bool(eq_raw) != want or (want and not same_hash):
                ctx.violation("C17/element-equality-wrong", f"Element({x!r}) vs Element({y!r}): == {eq}, != {ne}, == raw "
                              f"value {eq_raw}, same hash {same_hash}; expected equal = {want}", {**sub, "x": x, "y": y},
                              observed=[eq, ne, eq_raw, same_hash], expected=want)
                break
        else:
            continue
        break
    # agreement with ranking equality on single-ranking datasets
    if len(A) == 1 and len(B) == 1:
        ra, rb = da.rankings[0], db.rankings[0]
        st, req = call(lambda: ra == rb)
        ctx.count("single_ranking_pairs")
        if st == "ok" and bool(req) != bool(results["a==b"]) and bool(req) == expected:
            ctx.violation("C17/inconsistent-with-ranking-equality", f"rankings compare {req} but datasets "
                          f"{results['a==b']}", sub)
        elif st == "ok" and bool(req) != expected:
            ctx.violation("C17/ranking-equality-wrong", f"Ranking {ra} == {rb} returned {req}, expected {expected}", sub)
    # history: after having been compared, A is mutated in place and compared again (to a fresh dataset holding exactly
    # its new rankings: expected equal; to a fresh copy of its former content: expected by the reference)
    mut = random.Random(case["seed"]).choice(["remove_empty", "remove_element", "none", "refused", "refused", "used", "used"])
    before_raw = libx.raw_dataset(da)
    did = False
    if mut == "used" and not case.get("large"):
        # the dataset is USED (aggregated, its consensus read, scored, evaluated, partitioned) but never mutated: it must
        # still compare like a dataset holding its rankings
        sch_u = ck.ScoringScheme.get_unifying_scoring_scheme()
        r4 = random.Random(case["seed"] + 2)
        for cfg in r4.sample(["PickAPerm", "Borda", "Copeland", "BioConsert", "KwikSort", "BioCo"], 3):
            stc, cons = call(libx.make_algorithm(cfg).compute_consensus_rankings, da, sch_u, r4.random() < 0.5)
            if stc == "ok":
                uni_now = sorted(da.universe, key=str)
                for k in (1, 2, len(uni_now)):
                    call(cons.evaluate_topk_ranking, [e for e in uni_now if r4.random() < 0.4], k)
                    call(cons.topk_ranking, k)
                call(lambda: cons.kemeny_score)
                call(cons.description)
        call(ck.OrderedPartition.parfront_partition, da, sch_u)
        call(da.unified_dataset)
        ctx.count("compared_again_after_non_mutating_use")
        fresh = libx.mk_dataset(before_raw)
        for side, fn, want in (("a==fresh copy", lambda: da == fresh, True), ("fresh copy==a", lambda: fresh == da, True),
                               ("a==b", lambda: da == db, expected)):
            stq, got = call(fn)
            if stq == "exc" or bool(got) != want:
                ctx.violation("C17/wrong-answer-after-non-mutating-use", f"after aggregating the dataset and reading / "
                              f"evaluating its consensuses (no mutator called), {side} gave "
                              f"{exc_desc(got) if stq == 'exc' else got}, expected {want}", {**sub, "history": "used"},
                              observed=repr(got), expected=want)
                break
    if mut == "refused":
        # a mutation the library refuses (it would leave no element): the caller catches the exception and keeps the
        # Dataset, whose rankings are unchanged -- it must still compare like a dataset holding those rankings
        how = random.Random(case["seed"] + 1).choice(["all", "rate"])
        if how == "all":
            str_, res = call(da.remove_elements, {ck.Element(e) for e in ref.universe(before_raw)})
        else:
            str_, res = call(da.remove_elements_rate_presence_lower_than, 2.0)
        after_raw = libx.raw_dataset(da)
        if str_ == "exc" and ref.dataset_multiset(after_raw) == ref.dataset_multiset(before_raw):
            ctx.count("compared_again_after_refused_mutation")
            fresh = libx.mk_dataset(before_raw)
            for side, fn, want in (("a==fresh copy", lambda: da == fresh, True), ("fresh copy==a", lambda: fresh == da, True),
                                   ("a==a", lambda: da == da, True), ("a==b", lambda: da == db, expected),
                                   ("b==a", lambda: db == da, expected)):
                stq, got = call(fn)
                if stq == "exc" or bool(got) != want:
                    ctx.violation("C17/wrong-answer-after-refused-mutation", f"after a refused removal ({how}: "
                                  f"{type(res).__name__}) that left the rankings unchanged, {side} gave "
                                  f"{exc_desc(got) if stq == 'exc' else got}, expected {want}",
                                  {**sub, "mutation": "refused:" + how}, observed=repr(got), expected=want)
                    break
    if mut == "remove_empty" and any(len(r) == 0 for r in before_raw) and any(len(r) for r in before_raw):
        did = call(da.remove_empty_rankings)[0] == "ok"
    elif mut == "remove_element" and len(ref.universe(before_raw)) >= 2:
        victim = ref.universe(before_raw)[0]
        did = call(da.remove_elements, {ck.Element(victim)})[0] == "ok"
    if did:
        after_raw = libx.raw_dataset(da)
        ctx.count("compared_again_after_in_place_mutation")
        fresh_now = libx.mk_dataset(after_raw)
        fresh_old = libx.mk_dataset(before_raw)
        for label, other, raw_other in (("fresh copy of its current content", fresh_now, after_raw),
                                        ("fresh copy of its former content", fresh_old, before_raw)):
            want = ref.dataset_multiset(after_raw) == ref.dataset_multiset(raw_other)
            for side, fn in (("a==x", lambda o=other: da == o), ("x==a", lambda o=other: o == da)):
                stq, got = call(fn)
                if stq == "ok" and bool(got) != want:
                    ctx.violation("C17/stale-answer-after-in-place-mutation", f"after {mut} on a dataset that had already "
                                  f"been compared, {side} with a {label} returned {got}, expected {want}",
                                  {**sub, "mutation": mut, "after": after_raw}, observed=got, expected=want)
                    break
    if expected and text_differs:
        ctx.count("equal_text_differs")
        ctx.nontrivial(sub)
        ctx.sample({**sub, "str_a": str(da), "str_b": str(db), "expected_equal": True}, key="eq" + case["kind"])
    elif not expected and case["kind"] not in ("other",):
        ctx.count("near_misses")
        ctx.count("near_miss:" + case["kind"])
        ctx.nontrivial(sub)
        ctx.sample({**sub, "expected_equal": False}, key="ne" + case["kind"])


def reach(counters, tier, info):
    k = 0.5 if tier == "quick" else 20
    out = []
    for name, key, need in [("pairs judged", "pairs", 4000 * k),
                            ("pairs of datasets of 63-1025 elements, expected equal", "large_pairs:True", 20 * k),
                            ("pairs of datasets of 63-1025 elements, expected different", "large_pairs:False", 20 * k),
                            ("comparisons of a Dataset with something else", "comparisons_with_non_datasets", 4000 * k),
                            ("pairs of elements compared and hashed", "element_pairs", 4000 * k),
                            ("equal-by-construction pairs whose textual forms differ", "equal_text_differs", 300 * k),
                            ("near-miss pairs", "near_misses", 900 * k),
                            ("pairs differing only in multiplicity", "near_miss:multiplicity", 100 * k),
                            ("near misses: one element moved", "near_miss:move", 100 * k),
                            ("near misses: names with a comma", "near_miss:comma", 100 * k),
                            ("near misses: names with a space", "near_miss:space", 100 * k),
                            ("near misses: places recombined across two rankings", "near_miss:recombine", 150 * k),
                            ("pairs one operand of which is an instance of a sub-class of Dataset", "pairs_with_a_subclass_instance", 300 * k),
                            ("near misses: an empty bucket more / fewer / elsewhere", "near_miss:empty-bucket", 100 * k),
                            ("single-ranking pairs (agreement with Ranking equality)", "single_ranking_pairs", 300 * k),
                            ("datasets compared again after an in-place mutation", "compared_again_after_in_place_mutation", 400 * k),
                            ("datasets compared again after having been aggregated / evaluated (no mutator called)",
                             "compared_again_after_non_mutating_use", 600 * k),
                            ("datasets compared again after a refused mutation (rankings unchanged)",
                             "compared_again_after_refused_mutation", 600 * k)]:
        v = counters.get(key, 0)
        out.append({"name": name, "observed": v, "required": need, "ok": v >= need})
    return out
