"""C19 -- scoring schemes: validation, scaling and equivalence behave as documented."""
import itertools
import math
import random

from vf import gen, ref
from vf.core import call, exc_desc
from vf.lazy import ck, libx, common, np

PROP = "C19"
TECHNIQUE = ('exhaustive enumeration of the validation grid (3^12 / 4^12 tuples) through the real constructor + runtime monitoring of scaling (snapshots, score homogeneity) and of equivalence / nickname on pairs with known truth; valid schemes given as numpy floats / float and int subclasses; homogeneity under factors 2^-40 .. 2^20; schemes already used (scores, aggregation, nickname) when they are scaled')
RULE = ("(a) validation: EXHAUSTIVE grid of 12-tuples over {0,1,2} (3^12 = 531441, quick) / {0,1/2,1,2} (4^12 = 16.7M, "
        "thorough), accepted <=> predicate of the statement, rejection class = the documented one; plus malformed shapes "
        "and types (single fault each); (b) scaling: new object, original untouched, every entry multiplied, Kemeny scores "
        "scale; (c) equivalence pairs built with known truth (s,k*s), (B*k | T*k'), one entry changed, first-three-only "
        "differences; nickname; non-trivial = tuple violating exactly one validity rule, or pair differing in exactly one "
        "coordinate / one vector scale; distinct = digest of the tuple or pair")
ASSUMPTIONS = ["the statement's predicate evaluated in exact rationals", "inf, bool, numpy scalars, Decimal/Fraction inputs "
               "are recorded, not judged (the statement does not settle them)"]
SUMMARY_KEYS = ["grid_tuples", "grid_accepted", "grid_rejected", "malformed", "scalings", "equiv_pairs"]
EXHAUSTIVE = True
EXHAUSTIVE_NOTE = ("the validation grid (3^12 tuples in quick, 4^12 in thorough) is enumerated completely; scaling, "
                   "equivalence and malformed inputs are sampled")
THOROUGH_SCALE = 1
CRASH_IS_VIOLATION = False


def plan(tier, seed):
    if tier == "quick":
        return ([{"kind": "grid", "values": [0, 1, 2], "slice": i, "slices": 6} for i in range(6)] +
                [{"kind": "random", "n_cases": 2500, "hashseed": i} for i in range(2)])
    return ([{"kind": "grid", "values": [0, 0.5, 1, 2], "slice": i, "slices": 13} for i in range(13)] +
            [{"kind": "random", "n_cases": 40000, "hashseed": i} for i in range(3)])


def rules_violated(B, T):
    """the validity rules of the statement that a well-shaped non-negative tuple violates"""
    out = []
    if B[0] != 0:
        out.append("B0=0")
    if not B[1] > 0:
        out.append("B1>0")
    if not B[3] <= B[4]:
        out.append("B3<=B4")
    if T[0] != T[1]:
        out.append("T0=T1")
    if T[2] != 0:
        out.append("T2=0")
    if T[3] != T[4]:
        out.append("T3=T4")
    return out


def run_grid(spec, ctx):
    values = spec["values"]
    S = ck.ScoringScheme
    Forbidden = ck.ForbiddenAssociationPenaltiesScoringScheme
    total = len(values) ** 12
    lo = total * spec["slice"] // spec["slices"]
    hi = total * (spec["slice"] + 1) // spec["slices"]
    nv = len(values)
    ctx.begin({"grid_slice": [lo, hi], "values": values})
    for idx in range(lo, hi):
        t = []
        x = idx
        for _ in range(12):
            t.append(values[x % nv])
            x //= nv
        B, T = t[:6], t[6:]
        expected = ref.scheme_valid(B, T)
        try:
            s = S([list(B), list(T)])
            ok, exc = True, None
        except Exception as e:      # pylint: disable=broad-except
            ok, exc = False, e
        ctx.evaluations += 1
        if ok != expected:
            viol = rules_violated(B, T)
            sig = ("C19/invalid-scheme-accepted:" + "+".join(viol)) if ok else "C19/valid-scheme-rejected"
            ctx.violation(sig, f"ScoringScheme({[B, T]}) {'accepted' if ok else 'rejected with ' + type(exc).__name__} "
                          f"but the documented rules say {'valid' if expected else 'invalid ' + str(viol)}",
                          {"penalties": [B, T]}, observed="accepted" if ok else type(exc).__name__,
                          expected="accepted" if expected else "ForbiddenAssociationPenaltiesScoringScheme")
        elif not ok:
            ctx.count("grid_rejected")
            if not isinstance(exc, Forbidden):
                ctx.violation(f"C19/wrong-rejection-class-{type(exc).__name__}", f"ScoringScheme({[B, T]}) rejected with "
                              f"{type(exc).__name__} instead of ForbiddenAssociationPenaltiesScoringScheme",
                              {"penalties": [B, T]}, observed=type(exc).__name__)
            viol = rules_violated(B, T)
            if len(viol) == 1:
                ctx.count("single_rule:" + viol[0])
                if ctx.counters["single_rule:" + viol[0]] <= 40:
                    ctx.nontrivial({"penalties": [B, T]})
                ctx.sample({"penalties": [B, T], "violates": viol, "outcome": type(exc).__name__}, key=viol[0])
        else:
            ctx.count("grid_accepted")
            if s.penalty_vectors != [[float(v) for v in B], [float(v) for v in T]]:
                ctx.violation("C19/stored-penalties-differ", "accepted scheme does not hold the given penalties",
                              {"penalties": [B, T]}, observed=s.penalty_vectors)
            if ctx.counters["grid_accepted"] <= 40:
                ctx.nontrivial({"penalties": [B, T]})
    ctx.count("grid_tuples", hi - lo)
    if spec["slice"] == 0:
        ctx.count("exhaustive_spaces")
        ctx.count("grid_size_expected", total)


MALFORMED = [
    ("not-a-list", lambda v: (v[0], v[1]), "InvalidScoringScheme"),
    ("none", lambda v: None, "InvalidScoringScheme"),
    ("one-vector", lambda v: [v[0]], "InvalidScoringScheme"),
    ("three-vectors", lambda v: [v[0], v[1], v[1]], "InvalidScoringScheme"),
    ("inner-tuple", lambda v: [tuple(v[0]), v[1]], "InvalidScoringScheme"),
    ("inner-none", lambda v: [v[0], None], "InvalidScoringScheme"),
    ("short-B", lambda v: [v[0][:5], v[1]], "InvalidScoringScheme"),
    ("long-T", lambda v: [v[0], v[1] + [0.0]], "InvalidScoringScheme"),
    ("empty-T", lambda v: [v[0], []], "InvalidScoringScheme"),
    ("string-value", lambda v: [v[0][:5] + ["1"], v[1]], "NonRealPositiveValuesScoringScheme"),
    ("none-value", lambda v: [v[0], v[1][:5] + [None]], "NonRealPositiveValuesScoringScheme"),
    ("negative-B", lambda v: [v[0][:5] + [-1.0], v[1]], "NonRealPositiveValuesScoringScheme"),
    ("negative-T", lambda v: [v[0], v[1][:5] + [-0.5]], "NonRealPositiveValuesScoringScheme"),
    ("negative-int", lambda v: [v[0][:2] + [-3] + v[0][3:], v[1]], "NonRealPositiveValuesScoringScheme"),
    ("nan-B", lambda v: [v[0][:5] + [float("nan")], v[1]], "NonRealPositiveValuesScoringScheme"),
    ("nan-T", lambda v: [v[0], v[1][:5] + [float("nan")]], "NonRealPositiveValuesScoringScheme"),
    ("complex-value", lambda v: [v[0][:5] + [1j], v[1]], "NonRealPositiveValuesScoringScheme"),
    ("list-value", lambda v: [v[0][:5] + [[1.0]], v[1]], "NonRealPositiveValuesScoringScheme"),
]
UNJUDGED = [("inf", lambda v: [v[0][:5] + [float("inf")], v[1]]), ("bool", lambda v: [v[0][:5] + [True], v[1]])]


def run_random(spec, ctx):
    S = ck.ScoringScheme
    for i in range(spec["n_cases"]):
        rng = random.Random(f"{spec['seed']}/C19/{spec['shard']}/{i}")
        kind = rng.choice(["malformed", "scaling", "scaling", "equiv", "equiv", "equiv", "nickname", "valid-types"])
        ctx.evaluations += 1
        _, base = gen.scheme(rng, "S1 S2 S3 S3 S4 S6")
        if kind == "malformed":
            name, build, want = rng.choice(MALFORMED)
            arg = build([list(base[0]), list(base[1])])
            st, got = call(S, arg)
            ctx.count("malformed")
            ctx.count("malformed:" + name)
            case = {"malformed": name, "argument": repr(arg)}
            if st == "ok":
                ctx.violation(f"C19/malformed-accepted:{name}", f"ScoringScheme({arg!r}) was accepted", case,
                              observed="accepted", expected=want)
            elif type(got).__name__ != want:
                ctx.violation(f"C19/malformed-wrong-class:{name}", f"ScoringScheme({arg!r}) raised {type(got).__name__}, "
                              f"documented: {want}", case, observed=type(got).__name__, expected=want)
            else:
                ctx.nontrivial(case)
                ctx.sample({**case, "outcome": want}, key=name)
            if rng.random() < 0.1:
                nm, bld = rng.choice(UNJUDGED)
                stu, gu = call(S, bld([list(base[0]), list(base[1])]))
                ctx.count(f"unjudged:{nm}:{'accepted' if stu == 'ok' else type(gu).__name__}")
        elif kind == "valid-types":
            # "two lists of six non-negative numbers": the numbers a caller's code produces are not always plain floats --
            # numpy float64 (np.linspace, np.mean), subclasses of float / int, ints and bools for integral values, tuples
            # for the two vectors
            class Penalty(float):
                """a float subclass, as unit-carrying or traced numbers are"""
            how = rng.choice(["np.float64", "np.float64", "float-subclass", "int-where-integral", "bool-where-0-1", "tuples",
                              "np.float64-one-entry"])
            def conv(v, j):
                if how == "np.float64" or (how == "np.float64-one-entry" and j == 1):
                    return np.float64(v)
                if how == "float-subclass":
                    return Penalty(v)
                if how == "int-where-integral" and float(v).is_integer():
                    return int(v)
                if how == "bool-where-0-1" and v in (0.0, 1.0):
                    return bool(v)
                return v
            arg = [[conv(v, j) for j, v in enumerate(base[0])], [conv(v, j) for j, v in enumerate(base[1])]]
            if how == "tuples":
                arg = (tuple(arg[0]), tuple(arg[1]))
            st, got = call(S, arg)
            ctx.count("valid_schemes_of_other_number_types")
            ctx.count("valid-types:" + how)
            case = {"scheme": base, "number_type": how}
            if st == "exc":
                if how == "tuples":
                    ctx.count("tuples_refused:" + type(got).__name__)      # "two lists": a refusal of tuples is not judged
                else:
                    ctx.violation(f"C19/valid-scheme-rejected:{how}", f"a valid scheme whose penalties are {how} values was "
                                  f"refused: {exc_desc(got)}", case, observed=type(got).__name__, expected="accepted")
                continue
            pv = got.penalty_vectors
            if [[ref.fr(float(v)) for v in pv[0]], [ref.fr(float(v)) for v in pv[1]]] != \
                    [[ref.fr(v) for v in base[0]], [ref.fr(v) for v in base[1]]]:
                ctx.violation("C19/valid-scheme-stored-with-other-values", f"penalties given as {how} are stored as {pv}", case,
                              observed=pv, expected=base)
                continue
            stq, eq = call(got.is_equivalent_to, S([list(base[0]), list(base[1])]))
            if stq == "exc" or eq is not True:
                ctx.violation("C19/is_equivalent_to:reported-different", f"a scheme given as {how} values is not reported "
                              f"equivalent to the same scheme given as floats ({exc_desc(eq) if stq == 'exc' else eq})", case)
            else:
                ctx.nontrivial(case)
        elif kind == "scaling":
            k = rng.choice(gen.SCALES + [1.0, 1, 2, 3, 0.75, 2.0 ** -30, 2.0 ** -34, 2.0 ** -40, 2.0 ** 20, 2.0 ** -30])
            if k < 1e-6 or k > 1e5:
                ctx.count("scalings_by_tiny_or_huge_factors")
            if rng.random() < 0.15:
                k = np.float64(k)
            s = S([list(base[0]), list(base[1])])
            _, ds = gen.dataset(rng, classes="D2 D3 D4 D7", nmax=6, mmax=4)
            ds = libx.normalise_raw(ds)
            _, cand = gen.candidate(rng, ds, "random")
            d, c = libx.mk_dataset(ds), libx.mk_ranking(cand)
            used_first = rng.random() < 0.5
            if used_first:
                # the scheme has already served (scores, a cost table, its nickname) when it is multiplied
                call(ck.KemenyComputingFactory(s).get_kemeny_score, c, d)
                call(ck.CopelandMethod().compute_consensus_rankings, d, s, True)
                call(s.get_nickname)
                ctx.count("scalings_of_schemes_already_used")
            snapshot = [list(s.penalty_vectors[0]), list(s.penalty_vectors[1])]
            left = rng.random() < 0.5
            st, t = call((lambda: k * s) if left else (lambda: s * k))
            case = {"scheme": base, "k": k, "side": "k*s" if left else "s*k"}
            ctx.count("scalings")
            if st == "exc":
                ctx.violation(f"C19/scaling-raises-{type(t).__name__}", f"multiplying a valid scheme by {k} raised "
                              + exc_desc(t), case)
                continue
            if t is s:
                ctx.violation("C19/scaling-returns-same-object", "scheme * k returned the original object", case)
            if [list(s.penalty_vectors[0]), list(s.penalty_vectors[1])] != snapshot:
                ctx.violation("C19/scaling-modified-original", "multiplying modified the original scheme", case,
                              observed=s.penalty_vectors, expected=snapshot)
            want = [[ref.fr(v) * ref.fr(k) for v in base[0]], [ref.fr(v) * ref.fr(k) for v in base[1]]]
            got = t.penalty_vectors
            if [[ref.fr(v) for v in got[0]], [ref.fr(v) for v in got[1]]] != want:
                ctx.violation("C19/scaling-wrong-values", f"({case['side']}) penalties are not all multiplied by {k}", case,
                              observed=got, expected=want)
                continue
            # homogeneity of the Kemeny score on a random dataset / candidate
            st1, a = call(ck.KemenyComputingFactory(s).get_kemeny_score, c, d)
            st2, b = call(ck.KemenyComputingFactory(t).get_kemeny_score, c, d)
            if st1 == "ok" and st2 == "ok":
                ctx.count("homogeneity_checked")
                if ref.fr(float(b)) != ref.fr(float(a)) * ref.fr(k):
                    ctx.violation("C19/score-not-homogeneous", f"kemeny under k*s is not k * kemeny under s (k={k})",
                                  {**case, "ds": ds, "cand": cand}, observed=float(b), expected=float(a) * k)
            ctx.nontrivial(case)
            ctx.sample({**case, "scaled": got}, key="scaling" + str(left))
        elif kind in ("equiv", "nickname"):
            how = rng.choice(["multiple", "vector-scales-differ", "one-entry-B", "one-entry-T", "tail-only", "random",
                              "preset-multiple", "preset-lookalike"])
            k = rng.choice(gen.SCALES + gen.ODD_SCALES + [1.0])
            a = [list(base[0]), list(base[1])]
            if how == "multiple":
                b = gen.scale(a, k)
            elif how == "vector-scales-differ":
                k2 = rng.choice([x for x in gen.SCALES + [1.0] if x != k])
                b = [[v * k for v in a[0]], [v * k2 for v in a[1]]]
            elif how in ("one-entry-B", "one-entry-T"):
                b = gen.scale(a, k)
                vec = 0 if how == "one-entry-B" else 1
                for _ in range(30):
                    j = rng.choice([1, 2, 3, 4, 5] if vec == 0 else [0, 3, 5])
                    nb = [list(b[0]), list(b[1])]
                    nv = rng.choice(gen.DYADIC)
                    nb[vec][j] = nv
                    if vec == 1 and j == 0:
                        nb[1][1] = nv
                    if vec == 1 and j == 3:
                        nb[1][4] = nv
                    if ref.scheme_valid(nb[0], nb[1]) and nb != b:
                        b = nb
                        break
            elif how == "tail-only":
                # same first three entries (scaled), different last three: equivalent on complete rankings only
                b = gen.scale(a, k)
                for _ in range(30):
                    nb = [list(b[0]), list(b[1])]
                    nb[0][3] = rng.choice(gen.DYADIC)
                    nb[0][4] = nb[0][3] + rng.choice(gen.DYADIC)
                    nb[0][5] = rng.choice(gen.DYADIC)
                    nb[1][3] = nb[1][4] = rng.choice(gen.DYADIC)
                    nb[1][5] = rng.choice(gen.DYADIC)
                    if ref.scheme_valid(nb[0], nb[1]):
                        b = nb
                        break
            elif how == "preset-multiple":
                a = gen.scheme_preset(rng)
                b = gen.scale(a, k)
                a, b = b, a
            elif how == "preset-lookalike":
                a = gen.scheme_lookalike(rng)
                b = gen.scheme_preset(rng)
            else:
                _, b = gen.scheme(rng, "S1 S2 S3")
            st1, sa = call(S, a)
            st2, sb = call(S, b)
            if st1 == "exc" or st2 == "exc":
                ctx.count("equiv_pair_not_constructible")
                continue
            case = {"a": a, "b": b, "how": how}
            ctx.count("equiv_pairs")
            for meth, stop in (("is_equivalent_to", 6), ("is_equivalent_to_on_complete_rankings_only", 3)):
                want = ref.proportional(a, b, stop)
                for x, y, xa, ya in ((sa, sb, a, b), (sb, sa, b, a)):
                    st, got = call(getattr(x, meth), y)
                    ctx.count(f"equiv:{how}:{stop}:{want}")
                    if st == "exc":
                        ctx.violation(f"C19/{meth}-raises-{type(got).__name__}", exc_desc(got), case)
                    elif bool(got) != want or not isinstance(got, bool):
                        # mechanism: which vector breaks proportionality?
                        z = [0.0] * 6
                        prop_b = ref.proportional([xa[0], z], [ya[0], z], stop)
                        prop_t = ref.proportional([z, xa[1]], [z, ya[1]], stop)
                        mech = "reported-equivalent" if got else "reported-different"
                        if got and not want:
                            if prop_b and prop_t:
                                mech += ":vectors-proportional-with-different-coefficients"
                            elif prop_b:
                                mech += ":B-proportional-T-not"
                            elif prop_t:
                                mech += ":T-proportional-B-not"
                        ctx.violation(f"C19/{meth}:{mech}", f"{xa}.{meth}({ya}) returned {got!r}, expected {want}", case,
                                      observed=got, expected=want)
                        break
            # nickname
            st, nick = call(sa.get_nickname)
            want_nick = ref.nickname(a)
            ctx.count("nicknames")
            ctx.count(f"nickname:{want_nick}")
            if st == "exc":
                ctx.violation(f"C19/nickname-raises-{type(nick).__name__}", exc_desc(nick), {"a": a})
            elif (want_nick is not None and nick != want_nick) or \
                    (want_nick is None and (nick in ("UKSP", "GPDP", "IGKS", "EKS") or nick != str(sa))):
                ctx.violation("C19/wrong-nickname", f"{a}.get_nickname() = {nick!r}, expected "
                              f"{want_nick or 'the textual form'}", {"a": a}, observed=nick, expected=want_nick or str(sa))
            ctx.nontrivial(case)
            ctx.sample({**case, "equivalent": ref.proportional(a, b), "equivalent_complete_only": ref.proportional(a, b, 3),
                        "nickname_a": want_nick}, key=how)


def run_shard(spec, ctx):
    if spec["kind"] == "grid":
        run_grid(spec, ctx)
    else:
        run_random(spec, ctx)


def replay(wit, ctx):
    case = wit["case"]
    S = ck.ScoringScheme
    if "penalties" in case:
        B, T = case["penalties"]
        expected = ref.scheme_valid(B, T)
        st, got = call(S, [list(B), list(T)])
        if (st == "ok") != expected:
            ctx.violation(wit["signature"], f"ScoringScheme({[B, T]}): {'accepted' if st == 'ok' else type(got).__name__}, "
                          f"documented validity: {expected}", case)
    elif "malformed" in case:
        for name, build, want in MALFORMED:
            if name == case["malformed"]:
                base = ref.PRESETS["unifying"]
                st, got = call(S, build([list(base[0]), list(base[1])]))
                if st == "ok" or type(got).__name__ != want:
                    ctx.violation(wit["signature"], f"malformed input {name}: "
                                  f"{'accepted' if st == 'ok' else type(got).__name__}, documented {want}", case)
    elif "a" in case and "b" in case:
        sa, sb = S(case["a"]), S(case["b"])
        for meth, stop in (("is_equivalent_to", 6), ("is_equivalent_to_on_complete_rankings_only", 3)):
            want = ref.proportional(case["a"], case["b"], stop)
            for x, y in ((sa, sb), (sb, sa)):
                if bool(getattr(x, meth)(y)) != want:
                    ctx.violation(wit["signature"], f"{meth} returned {not want}, expected {want}", case)
    elif "a" in case:
        sa = S(case["a"])
        want = ref.nickname(case["a"])
        nick = sa.get_nickname()
        if (want is not None and nick != want) or (want is None and (nick in ("UKSP", "GPDP", "IGKS", "EKS")
                                                                      or nick != str(sa))):
            ctx.violation(wit["signature"], f"nickname {nick!r}, expected {want}", case)
    elif "number_type" in case:
        class Penalty(float):
            """a float subclass"""
        how, base = case["number_type"], case["scheme"]

        def conv(v, j):
            if how == "np.float64" or (how == "np.float64-one-entry" and j == 1):
                return np.float64(v)
            if how == "float-subclass":
                return Penalty(v)
            if how == "int-where-integral" and float(v).is_integer():
                return int(v)
            if how == "bool-where-0-1" and v in (0.0, 1.0):
                return bool(v)
            return v
        st, got = call(S, [[conv(v, j) for j, v in enumerate(base[0])], [conv(v, j) for j, v in enumerate(base[1])]])
        if st == "exc":
            ctx.violation(wit["signature"], f"a valid scheme whose penalties are {how} values was refused: {exc_desc(got)}", case)
        elif [[float(v) for v in got.penalty_vectors[0]], [float(v) for v in got.penalty_vectors[1]]] != \
                [[float(v) for v in base[0]], [float(v) for v in base[1]]]:
            ctx.violation(wit["signature"], f"penalties given as {how} are stored as {got.penalty_vectors}", case)
    elif "k" in case and "scheme" in case:
        s0 = S([list(case["scheme"][0]), list(case["scheme"][1])])
        k = case["k"]
        t = k * s0 if case.get("side") == "k*s" else s0 * k
        want = [[ref.fr(v) * ref.fr(k) for v in case["scheme"][0]], [ref.fr(v) * ref.fr(k) for v in case["scheme"][1]]]
        if [[ref.fr(v) for v in t.penalty_vectors[0]], [ref.fr(v) for v in t.penalty_vectors[1]]] != want:
            ctx.violation(wit["signature"], f"penalties are not all multiplied by {k}", case)
        if "ds" in case and "cand" in case:
            d, c = libx.mk_dataset(case["ds"]), libx.mk_ranking(case["cand"])
            a = ck.KemenyComputingFactory(s0).get_kemeny_score(c, d)
            b = ck.KemenyComputingFactory(t).get_kemeny_score(c, d)
            if ref.fr(float(b)) != ref.fr(float(a)) * ref.fr(k):
                ctx.violation(wit["signature"], f"kemeny under k*s is not k * kemeny under s (k={k})", case)
    else:
        print("replay: this witness kind is re-checked by running the check itself")


def _reach_types(counters, k):
    out = []
    for how in ("np.float64", "float-subclass", "int-where-integral", "bool-where-0-1"):
        v = counters.get("valid-types:" + how, 0)
        out.append({"name": f"valid schemes given as {how} values", "observed": v, "required": 40 * k, "ok": v >= 40 * k})
    return out


def reach(counters, tier, info):
    out = []
    total = counters.get("grid_size_expected", 0)
    v = counters.get("grid_tuples", 0)
    out.append({"name": "validation grid enumerated completely", "observed": v, "required": total or "grid size",
                "ok": total > 0 and v == total})
    k = 0.5 if tier == "quick" else 15
    for rule in ("B0=0", "B1>0", "B3<=B4", "T0=T1", "T2=0", "T3=T4"):
        c = counters.get("single_rule:" + rule, 0)
        out.append({"name": f"tuples violating exactly the rule {rule}", "observed": c, "required": 100,
                    "ok": c >= 100})
    for name, key, need in [("malformed inputs", "malformed", 400 * k), ("scalings", "scalings", 800 * k),
                            ("scalings of schemes that had already been used", "scalings_of_schemes_already_used", 300 * k),
                            ("scalings by 2^-40 .. 2^-30 or 2^20", "scalings_by_tiny_or_huge_factors", 150 * k),
                            ("score homogeneity checks", "homogeneity_checked", 500 * k),
                            ("equivalence pairs", "equiv_pairs", 1500 * k), ("nicknames", "nicknames", 1500 * k)]:
        c = counters.get(key, 0)
        out.append({"name": name, "observed": c, "required": need, "ok": c >= need})
    for how, stop, want in [("multiple", 6, True), ("vector-scales-differ", 6, False), ("one-entry-B", 6, False),
                            ("one-entry-T", 6, False), ("tail-only", 3, True), ("tail-only", 6, False),
                            ("preset-lookalike", 6, False)]:
        c = counters.get(f"equiv:{how}:{stop}:{want}", 0)
        out.append({"name": f"pairs '{how}' (first {stop} entries) with expected answer {want}", "observed": c,
                    "required": 100 * k, "ok": c >= 100 * k})
    for nm, _b, _w in MALFORMED:
        c = counters.get("malformed:" + nm, 0)
        out.append({"name": f"malformed kind {nm}", "observed": c, "required": 10, "ok": c >= 10})
    out += _reach_types(counters, k)
    return out
