"""C01 -- Kemeny score equals the generalized pairwise-penalty definition."""
from vf import gen, ref
from vf.core import call, exc_desc
from vf.lazy import ck, libx, common
from vf.monitors import algos

PROP = "C01"
TECHNIQUE = ('icontract postcondition on the real get_kemeny_score (direct and internal calls) judged online against an exact pairwise-definition oracle; refusal path checked at the call boundary; size sweep (63-1025 elements) against a vectorised reference; rankings holding empty buckets; on-demand scores of consensus objects that algorithm outputs share; datasets given non-uniform constructor weights; the bench_mode route')
RULE = ("cases = (dataset class D1-D7/D12 x scheme class S1-S7 x candidate kind); a case is non-trivial when the "
        "candidate has >= 2 elements and >= 3 distinct (placement, status) cells occur with a non-zero penalty; "
        "distinct = digest of (dataset, scheme, candidate)")
ASSUMPTIONS = ["reference model vf/ref.py (self-checked each run)", "dyadic penalties: float sums are exact",
               "sizes n <= 40, m <= 12 against the Fraction model; 63-1025 elements (3 % of the cases) against the vectorised "
               "reference vf/refnp.py, itself cross-checked against the Fraction model at the start of every shard"]
SUMMARY_KEYS = ["contract:get_kemeny_score", "refusals_expected", "cells_min"]
CELLS = [("B", s) for s in range(6)] + [("T", s) for s in range(6)]


def setup(ctx):
    from vf import refnp
    refnp.selftest()
    common.install_kemeny_contract()


def _plan(tier, seed):
    if tier == "quick":
        return [{"n_cases": 420, "hashseed": i % 2} for i in range(8)] + \
               [{"n_cases": 26, "params": {"sweep": 13 * i}, "hashseed": i} for i in range(2)]
    return [{"n_cases": 6000, "hashseed": i % 4} for i in range(16)] + \
           [{"n_cases": 104, "params": {"sweep": 13 * i}, "hashseed": i} for i in range(4)]

def plan(tier, seed):
    """+ one shard running the repository's own tests under the monitors (vf/pytest_plugin.py)"""
    shards = _plan(tier, seed)
    if tier == "thorough":
        shards.append({"kind": "repotests", "n_cases": 0})
    return shards


def gen_case(rng, ctx):
    if "sweep" in ctx.params or rng.random() < 0.01:
        # sizes at which implementations switch strategy (64 .. 1025 elements): structured rankings and candidates; the
        # sweep shards walk through every size of gen.THRESHOLD_SIZES
        n = rng.choice(gen.THRESHOLD_SIZES)
        if "sweep" in ctx.params:
            n = gen.THRESHOLD_SIZES[(ctx.index + ctx.params["sweep"]) % len(gen.THRESHOLD_SIZES)]
        ds, base = gen.large_dataset(rng, n)
        scls, sch = gen.scheme(rng, "S1 S1 S2 S3 S15")
        kind, cand = gen.large_candidate(rng, base)
        return {"ds": ds, "scheme": sch, "cand": cand, "kind": "large-" + kind, "dcls": "large", "scls": scls, "n": n}
    big = rng.random() < 0.06
    cls, ds = gen.dataset(rng, classes="D1 D2 D3 D3 D4 D5 D6 D7 D7 D3 D21 D14 D14", nmax=30 if big else 9, mmax=12 if big else 7)
    ds = libx.normalise_raw(ds)
    scls, sch = gen.scheme(rng, "S1 S2 S3 S3 S3 S4 S6 S7")
    kind, cand = gen.candidate(rng, ds)
    return {"ds": ds, "scheme": sch, "cand": cand, "kind": kind, "dcls": cls, "scls": scls}


def check_large(case, ctx):
    """64 .. 1025 elements: the score against the vectorised reference (vf/refnp.py), directly and on demand"""
    from vf import refnp
    ds, sch, cand = case["ds"], case["scheme"], case["cand"]
    slim = {k: case[k] for k in ("scheme", "kind", "n")} | {"ds": ds, "cand": cand}
    common.set_case(ctx, slim)
    dataset = libx.mk_dataset(ds)
    scheme = libx.mk_scheme(sch)
    ranking = libx.mk_ranking(cand)
    ctx.count("class:large")
    ctx.count("cand:" + case["kind"])
    expected = refnp.kemeny(cand, ds, sch)
    st, val = call(ck.KemenyComputingFactory(scheme).get_kemeny_score, ranking, dataset)
    if st == "exc":
        ctx.violation("C01/scoring-raises", f"scoring a complete candidate over {case['n']} elements raised " + exc_desc(val),
                      slim, observed=type(val).__name__, expected=expected)
        return
    ctx.count("large_candidates_scored")
    ctx.setadd("large_sizes", case["n"])
    if len(cand) < case["n"]:
        ctx.count("large_candidates_with_ties")
    if not (isinstance(val, (int, float)) or hasattr(val, "dtype")) or float(val) != expected:
        ctx.violation("C01/score-differs-from-definition:large", f"{case['n']} elements, candidate kind {case['kind']}: direct "
                      "call differs from the definition", slim, observed=val, expected=expected)
        return
    st2, val2 = call(lambda: ck.Consensus([ranking], dataset=dataset, scoring_scheme=scheme).kemeny_score)
    if st2 == "exc" or float(val2) != expected:
        ctx.violation("C01/consensus-on-demand-score-differs", "Consensus.kemeny_score (computed on demand) differs", slim,
                      observed=val2 if st2 == "ok" else exc_desc(val2), expected=expected)
    ctx.nontrivial({"n": case["n"], "kind": case["kind"], "scheme": sch, "m": len(ds), "d": gen.digest(ds)})


def check_case(case, ctx):
    if case.get("dcls") == "large":
        return check_large(case, ctx)
    ds, sch, cand = case["ds"], case["scheme"], case["cand"]
    common.set_case(ctx, case)
    dataset = libx.mk_dataset(ds)
    scheme = libx.mk_scheme(sch)
    ranking = libx.mk_ranking(cand)
    exact = gen.is_dyadic(sch)
    ctx.count("class:" + case.get("dcls", "?"))
    ctx.count("scheme:" + case.get("scls", "?"))
    ctx.count("cand:" + case.get("kind", "?"))
    complete = ref.is_complete_towards(cand, ds)
    st, val = call(ck.KemenyComputingFactory(scheme).get_kemeny_score, ranking, dataset)
    if not complete:
        ctx.count("refusals_expected")
        if st == "ok":
            ctx.violation("C01/incomplete-candidate-scored",
                          "a candidate lacking a dataset element was scored instead of refused",
                          case, observed=val, expected="InvalidRankingsForComputingDistance")
        elif not isinstance(val, ck.InvalidRankingsForComputingDistance):
            ctx.violation("C01/wrong-refusal-exception", "refusal with an undocumented exception: " + exc_desc(val),
                          case, observed=type(val).__name__, expected="InvalidRankingsForComputingDistance")
        else:
            ctx.count("refusals_observed")
            ctx.nontrivial(case)
        return
    detail = {}
    expected = ref.kemeny(cand, ds, sch, detail)
    if st == "exc":
        sig = "C01/complete-candidate-refused" if isinstance(val, ck.InvalidRankingsForComputingDistance) \
            else "C01/scoring-raises"
        ctx.violation(sig, "scoring a complete candidate raised " + exc_desc(val), case,
                      observed=type(val).__name__, expected=expected)
        return
    if not common.close(val, expected, exact):
        ctx.violation("C01/score-differs-from-definition", "direct call differs from the definition", case,
                      observed=val, expected=expected)
    # on-demand score of a Consensus that was given none
    st2, val2 = call(lambda: ck.Consensus([ranking], dataset=dataset, scoring_scheme=scheme).kemeny_score)
    if st2 == "exc" or not common.close(val2, expected, exact):
        ctx.violation("C01/consensus-on-demand-score-differs", "Consensus.kemeny_score (computed on demand) differs",
                      case, observed=val2 if st2 == "ok" else exc_desc(val2), expected=expected)
    # on-demand score of the consensuses that shared algorithm objects return (one object per configuration for the whole
    # shard): algorithms that supply no score of their own leave it to Consensus.kemeny_score
    if len(ref.universe(ds)) <= 7:
        for cfg in ("Exact", "Copeland", "KwikSort", "Pulp")[: 2 + (gen.digest(ds)[0] in "01234567")]:
            stc, cons, _ = algos.run_config(cfg, dataset, scheme, True, 0)
            if stc != "ok":
                continue
            st3, val3 = call(lambda c=cons: c.kemeny_score)
            try:
                r0 = libx.raw_ranking(cons.consensus_rankings[0])
            except Exception:      # pylint: disable=broad-except
                continue
            if not common.wellformed_raw(r0, ref.universe(ds)):
                continue
            want3 = ref.kemeny(r0, ds, sch)
            ctx.count("on_demand_scores_of_algorithm_outputs")
            if st3 == "exc" or not common.close(val3, want3, exact, 1e-6):
                ctx.violation("C01/consensus-on-demand-score-differs:algorithm-output", f"{cfg} (shared object): kemeny_score "
                              f"of the returned consensus {r0} is {exc_desc(val3) if st3 == 'exc' else val3}, the definition "
                              f"gives {float(want3)}", {**case, "config": cfg}, observed=repr(val3), expected=want3)
                break
    # reach bookkeeping: cells with a non-zero penalty
    B, T = sch
    nz = 0
    for (pl, s), cnt in detail.items():
        pen = (B if pl == "B" else T)[s]
        if cnt > 0 and pen != 0:
            nz += 1
            ctx.count(f"cell:{pl}{s}")
    # history on shared objects: the same factory scores a candidate, the Dataset is shrunk in place, the same factory
    # scores a candidate over the remaining elements
    uni = ref.universe(ds)
    if len(uni) >= 3:
        factory = ck.KemenyComputingFactory(scheme)
        call(factory.get_kemeny_score, ranking, dataset)
        victim = uni[len(uni) // 2]
        ds2 = [[[e for e in b if e != victim] for b in r] for r in ds]
        ds2 = [[b for b in r if b] for r in ds2]
        ds2 = [r for r in ds2 if r]
        if ds2 and libx.normalise_raw(ds2) == ds2 and call(dataset.remove_elements, {ck.Element(victim)})[0] == "ok":
            cand2 = [[e for e in b if e != victim] for b in cand]
            cand2 = [b for b in cand2 if b]
            now = libx.raw_dataset(dataset)
            if cand2 and ref.is_complete_towards(cand2, now):
                ctx.count("scored_again_after_in_place_removal")
                want2 = ref.kemeny(cand2, now, sch)
                st5, v5 = call(factory.get_kemeny_score, libx.mk_ranking(cand2), dataset)
                if st5 == "exc":
                    ctx.violation("C01/complete-candidate-refused:after-in-place-removal", "after remove_elements on the "
                                  f"Dataset, the factory that had already scored it refused a candidate that contains every "
                                  f"remaining element: {exc_desc(v5)}", {**case, "removed": victim, "cand2": cand2},
                                  observed=type(v5).__name__, expected=want2)
                elif not common.close(v5, want2, exact):
                    ctx.violation("C01/score-differs-from-definition:after-in-place-removal", "score after an in-place "
                                  "removal differs from the definition", {**case, "removed": victim, "cand2": cand2},
                                  observed=v5, expected=want2)
    if not exact:
        ctx.count("decimal_cases")
    nb = sum(len(b) for b in cand)
    if nb >= 2 and nz >= 3:
        ctx.nontrivial(case)
        ctx.sample({k: case[k] for k in ("ds", "scheme", "cand", "kind")} | {"expected_score": float(expected)},
                   key=case.get("kind"))


def reach(counters, tier, info):
    need = 20
    out = []
    mins = None
    for pl, s in CELLS:
        if pl == "T" and s == 2:
            continue      # T[2] is 0 by validity: cannot carry a non-zero penalty
        if pl == "B" and s == 0:
            continue      # B[0] is 0 by validity
        v = counters.get(f"cell:{pl}{s}", 0)
        mins = v if mins is None else min(mins, v)
        out.append({"name": f"cell {pl}[{s}] observed with a non-zero penalty", "observed": v, "required": need,
                    "ok": v >= need})
    counters["cells_min"] = mins
    v = counters.get("contract:get_kemeny_score", 0)
    out.append({"name": "postcondition evaluations on get_kemeny_score", "observed": v, "required": 100, "ok": v >= 100})
    v = counters.get("scored_again_after_in_place_removal", 0)
    out.append({"name": "candidates scored by the same factory after an in-place removal", "observed": v, "required": 300,
                "ok": v >= 300 or tier != "quick" and v >= 300})
    v = counters.get("on_demand_scores_of_algorithm_outputs", 0)
    out.append({"name": "on-demand scores of consensuses returned by shared algorithm objects", "observed": v, "required": 1500,
                "ok": v >= 1500})
    v = counters.get("large_candidates_scored", 0)
    out.append({"name": "candidates over 63-1025 elements scored (vectorised reference)", "observed": v, "required": 40,
                "ok": v >= 40})
    v = len(set(info["sets"].get("large_sizes", ())) & set(gen.THRESHOLD_SIZES))
    out.append({"name": "distinct sizes among gen.THRESHOLD_SIZES met", "observed": v, "required": len(gen.THRESHOLD_SIZES),
                "ok": v >= len(gen.THRESHOLD_SIZES)})
    v = counters.get("large_candidates_with_ties", 0)
    out.append({"name": "... of which with ties", "observed": v, "required": 15, "ok": v >= 15})
    v = counters.get("refusals_observed", 0)
    out.append({"name": "refusals of incomplete candidates observed", "observed": v, "required": 20, "ok": v >= 20})
    return out
