"""C11 -- KwikSort's result is pivot-independent when pairwise preferences cohere."""
from vf import gen, ref, sched
from vf.core import call, exc_desc
from vf.lazy import ck, libx, common
from vf.monitors import algos

PROP = "C11"
TECHNIQUE = ("schedule control: the library's random draws run through a scripted source; all pivot sequences enumerated depth-first (n<=5 / 7); existential possible-output oracle + step-by-step check against the observed chooser; worst-case pivot chains on 1000+ elements; same KwikSort object again after an in-place mutation; scheme class with independent zero patterns of the unranked penalties; KwikSort object reused from other datasets and schemes")
RULE = ("cases = dataset (D8 near-unanimous = coherent by construction, identical rankings, D3/D4 incomplete with ties, "
        "D9 cycles, D2, D11) x scheme (S1-S3, S6); the pivot chooser is driven by a scripted random source: ALL pivot "
        "sequences are enumerated depth-first for n<=5 (quick) / n<=7 (thorough), 150 random sequences for larger n; "
        "oracles: (a) the returned ranking is a possible KwikSort output w.r.t. the reference cheapest placements "
        "(existential check over pivots) and, when the chooser can be observed, every element sits relative to the "
        "observed pivot of its step as place(e|p) says; (b) coherent preferences => exactly the induced ranking for every "
        "sequence; (c) identical rankings returned unchanged; non-trivial = >= 2 distinct pivot sequences with >= 2 "
        "buckets in the result; distinct = digest of (dataset, scheme)")
ASSUMPTIONS = ["reference model vf/ref.py", "dyadic penalties (equal-cost decisions are exact)",
               "CPython: choice / randint / shuffle all draw through Random._randbelow"]
SUMMARY_KEYS = ["runs", "sequences", "exhaustive_datasets", "coherent_datasets", "identical_datasets", "steps_checked"]
EXHAUSTIVE = False      # exhaustive per dataset (all pivot sequences), not over datasets: see exhaustive_subspaces
EXHAUSTIVE_NOTE = "for every dataset counted in counters.exhaustive_datasets ALL pivot sequences were executed"
CRASH_IS_VIOLATION = False

PIVOTS = []


def setup(ctx):
    ctx.scripted = sched.ScriptedRandom()
    import corankco.algorithms.kwiksort.kwiksortrandom as kr  # noqa: F401  (make sure it is loaded)
    ctx.rebound = sched.install(ctx.scripted)
    ctx.count("rebound_names", len(ctx.rebound))
    for nm in ctx.rebound:
        ctx.setadd("rebound", nm)
    # advisory recorder on the chooser (when that name still exists)
    cls = ck.KwikSortRandom
    if hasattr(cls, "_get_pivot"):
        orig = cls._get_pivot

        def recording_get_pivot(self, mapping_elements_id, elements, positions, scoring_scheme):
            p = orig(self, mapping_elements_id, elements, positions, scoring_scheme)
            PIVOTS.append((p.value, [e.value for e in elements]))
            return p
        cls._get_pivot = recording_get_pivot
        ctx.chooser_observed = True
    else:
        ctx.chooser_observed = False


def plan(tier, seed):
    if tier == "quick":
        return [{"n_cases": 170, "mode": "A", "hashseed": i % 3} for i in range(8)] + \
               [{"n_cases": 2, "mode": "A", "params": {"deep": True}}]
    return [{"n_cases": 330, "mode": "A", "hashseed": i % 4} for i in range(16)] + \
           [{"n_cases": 3, "mode": "A", "params": {"deep": True}, "hashseed": i} for i in range(4)]


def gen_case(rng, ctx):
    if ctx.params.get("deep"):
        # worst-case pivot sequences on more than 1000 elements: every pivot is the first of the remaining elements, which on
        # identical rankings in increasing (decreasing) order of the element ids is the smallest (largest) one, so that the
        # number of nested pivots is the number of elements (a recursive implementation needs that many frames)
        n = rng.choice([1050, 1100, 1100])
        order = list(range(n))
        if rng.random() < 0.5:
            order.reverse()
        r = [[e] for e in order]
        return {"ds": [[list(b) for b in r] for _ in range(rng.choice([1, 2, 3]))],
                "scheme": [list(v) for v in ref.PRESETS[rng.choice(["unifying", "induced"])]], "kind": "deep", "scls": "S1",
                "seqseed": rng.randrange(10 ** 6), "deep_direction": "increasing" if order[0] == 0 else "decreasing"}
    gen.OUTLIER["n_only_up_to"] = 7      # the exact oracle limits the number of elements; rankings are not limited
    thorough = ctx.tier == "thorough"
    kind = rng.choice(["D8", "D8", "D8", "identical", "D3", "D4", "D9", "D2", "D11", "big", "D21", "D21"])
    if rng.random() < 0.012:
        kind = "wide"
    nmax = 7 if thorough else 5
    if kind == "identical":
        n = rng.randint(2, nmax)
        _, names = gen.element_names(rng, n)
        r = gen.ranking_over(rng, names, rng.choice([0.0, 0.4]))
        ds = [[list(b) for b in r] for _ in range(rng.randint(1, 4))]
        for _ in range(30):
            scls, sch = gen.scheme(rng, "S1 S2 S3 S3 S18")
            if sch[0][2] > 0 and sch[1][0] > 0:
                break
        else:
            scls, sch = "S1", [list(v) for v in ref.PRESETS["unifying"]]
    elif kind == "wide":
        # 129-140 elements, near-unanimous, with ties sitting exactly at positions 126-128 (limits of narrow integer types)
        cut = rng.choice([126, 127, 127, 127, 128])
        tail = rng.choice([2, 2, 3])
        extra = rng.choice([0, 0, 0, 1, 5])          # 0: the tied bucket is the last one (highest position == cut)
        n = cut + tail + extra
        names = list(range(n))
        rng.shuffle(names)
        tied = names[cut:cut + tail]
        rest = [[e] for e in names[cut + tail:]]
        base = [[e] for e in names[:cut]] + [list(tied)] + rest
        ds = [[list(b) for b in base] for _ in range(2)]
        if rng.random() < 0.6:
            # the dissenting ranking orders the pair earlier and ties the two displaced elements at the end, so that no
            # position exceeds `cut` in any ranking
            ds.append([[e] for e in names[:cut - 2]] + [[e] for e in tied[:2]] + [list(names[cut - 2:cut]) + list(tied[2:])]
                      + rest)
        else:
            ds.append([[e] for e in names[:cut]] + [[e] for e in tied] + rest)
        if rng.random() < 0.5:
            ds.append(gen.perturb(rng, base, 2))
        scls, sch = gen.scheme(rng, "S1 S1 S11 S13")
    elif kind == "big":
        _, ds = gen.dataset(rng, classes="D8 D3 D2", n=rng.randint(8, 12), mmax=6)
        scls, sch = gen.scheme(rng, "S1 S2 S3 S3 S6 S9 S11 S18 S18")
    elif kind == "D21":
        # profile twins under schemes where the 'both unranked' cells matter (T[5] vs B[5] on either side)
        _, ds = gen.dataset(rng, cls="D21", nmax=nmax, mmax=6)
        scls, sch = gen.scheme(rng, "S13 S13 S3 S1")
    else:
        _, ds = gen.dataset(rng, cls=kind, nmax=nmax, mmax=6)
        scls, sch = gen.scheme(rng, "S1 S2 S3 S3 S6 S9 S11 S13 S18 S18")
    ds = libx.normalise_raw(ds)
    return {"ds": ds, "scheme": sch, "kind": kind, "scls": scls, "seqseed": rng.randrange(10 ** 6)}


def possible_output(ranking, table):
    """is `ranking` (list of lists) a possible KwikSort output for some pivot choices?"""
    memo = {}

    def ok(lo, hi):
        # sub-ranking made of buckets lo..hi-1 over exactly their elements
        if hi - lo == 0:
            return True
        key = (lo, hi)
        if key in memo:
            return memo[key]
        elems = [e for b in ranking[lo:hi] for e in b]
        if len(elems) == 1:
            memo[key] = True
            return True
        res = False
        for bi in range(lo, hi):
            for p in ranking[bi]:
                good = True
                for bj in range(lo, hi):
                    want = "before" if bj < bi else ("after" if bj > bi else "tie")
                    for e in ranking[bj]:
                        if e != p and ref.place(e, p, table) != want:
                            good = False
                            break
                    if not good:
                        break
                if good and ok(lo, bi) and ok(bi + 1, hi):
                    res = True
                    break
            if res:
                break
        memo[key] = res
        return res
    return ok(0, len(ranking))


def check_deep(case, ctx):
    """identical rankings of more than 1000 elements must come back unchanged for the pivot sequences 'always the first of
    the remaining elements' and two random ones (the full reference table is not built for this size)"""
    ds, sch = case["ds"], case["scheme"]
    common.set_case(ctx, case)
    dataset = libx.mk_dataset(ds)
    scheme = libx.mk_scheme(sch)
    alg = ck.KwikSortRandom()
    want = ref.canon(ds[0])
    for script, tail in (([], "zero"), ([], "random")):
        ctx.scripted.restart(script=script, tail=tail, seed=case["seqseed"])
        del PIVOTS[:]
        st, cons = call(alg.compute_consensus_rankings, dataset, scheme, True)
        nested = 0
        # number of nested pivots = length of the longest chain of observed steps whose element lists shrink
        ctx.count("runs")
        ctx.count("sequences")
        ctx.count("deep_runs")
        sub = {"ds_shape": {"elements": len(ds[0]), "rankings": len(ds), "order": case.get("deep_direction")},
               "scheme": sch, "pivot_decisions": "always the first remaining element" if tail == "zero" else "random"}
        if st == "exc":
            ctx.violation(f"C11/raises-{type(cons).__name__}", f"KwikSort raised {exc_desc(cons)} on {len(ds)} identical "
                          f"rankings of {len(ds[0])} elements, pivot = {sub['pivot_decisions']}", {**case, **sub})
            return
        r = libx.raw_ranking(cons.consensus_rankings[0])
        if tail == "zero":
            ctx.count("deep_runs_with_as_many_nested_pivots_as_elements", int(len(PIVOTS) >= len(ds[0]) - 1))
        if ref.canon(r) != want:
            ctx.violation("C11/identical-rankings-not-returned-unchanged", f"{len(ds)} copies of a ranking of {len(ds[0])} "
                          f"elements were not returned unchanged (pivot = {sub['pivot_decisions']}); first difference at "
                          f"bucket {next((i for i, (a, b) in enumerate(zip(r, ds[0])) if set(a) != set(b)), None)}",
                          {**case, **sub})
            return
        del nested
    ctx.nontrivial({"deep": len(ds[0]), "m": len(ds), "dir": case.get("deep_direction"), "scheme": sch})


def check_case(case, ctx):
    if case.get("kind") == "deep":
        return check_deep(case, ctx)
    ds, sch = case["ds"], case["scheme"]
    common.set_case(ctx, case)
    dataset = libx.mk_dataset(ds)
    scheme = libx.mk_scheme(sch)
    elems = ref.universe(ds)
    n = len(elems)
    table = ref.cost_table(ds, sch, elems)
    coherent = ref.coherent_ranking(ds, sch)
    base = {"ds": ds, "scheme": sch}
    ctx.count("kind:" + case["kind"])
    alg = ck.KwikSortRandom()
    scripted = ctx.scripted
    if gen.digest(ds)[3] in "0123456":
        # the algorithm object has already served on other inputs: a complete dataset under two or three other schemes, then
        # under the scheme of this case (an object reused across datasets and schemes must not remember anything)
        import random
        rw = random.Random(gen.digest(ds))
        warm = libx.mk_dataset([[[101], [102], [103]], [[102], [101, 103]], [[103], [102], [101]]])
        names = rw.sample(sorted(ref.PRESETS), min(3, len(ref.PRESETS)))
        for wsch in [ref.PRESETS[nm] for nm in names] + [sch]:
            scripted.restart(script=[], tail="zero")
            call(alg.compute_consensus_rankings, warm, libx.mk_scheme([list(v) for v in wsch]), True)
        ctx.count("algorithm_objects_reused_from_other_datasets_and_schemes")

    def run(script):
        scripted.restart(script=script, tail="zero")
        del PIVOTS[:]
        st, cons = call(alg.compute_consensus_rankings, dataset, scheme, True)
        return list(scripted.log), (st, cons, list(PIVOTS))

    exhaustive = n <= (7 if ctx.tier == "thorough" else 5)
    results = set()
    nseq = 0
    if exhaustive:
        runs = sched.enumerate_schedules(run, cap=6000)
    else:
        import random
        r2 = random.Random(case["seqseed"])

        def gen_runs():
            for _ in range(150 if n <= 20 else 12):
                script = [r2.randrange(1 << 30) for _ in range(2 * n + 2)]
                log, res = run(script)
                yield [k for _, k in log], log, res
        runs = gen_runs()
    shapes = set()
    for script, log, (st, cons, pivots) in runs:
        nseq += 1
        ctx.count("runs")
        sub = {**base, "pivot_decisions": script}
        if n >= 2 and len(log) == 0:
            ctx.count("runs_without_decision")
        if st == "exc":
            ctx.violation(f"C11/raises-{type(cons).__name__}", "KwikSort raised " + exc_desc(cons), sub)
            break
        try:
            r = libx.raw_ranking(cons.consensus_rankings[0])
        except Exception:      # pylint: disable=broad-except
            break
        if not common.wellformed_raw(r, elems):
            # (well-formedness in general is C03's business, under random pivots) -- here the pivots are known: an element
            # of the dataset that the result lacks, or holds twice, was not placed relative to the pivot of its step
            ctx.count("ill_formed_results")
            flat = [e for b in r for e in b]
            lacking = [e for e in elems if e not in flat]
            ctx.violation("C11/element-not-placed" + (":coherent" if coherent is not None else ""),
                          f"pivots {script}: the result {r} lacks {lacking[:4]} / repeats or adds elements: every element "
                          f"must be placed relative to the pivot of its step" +
                          (f"; the preferences cohere into {coherent}" if coherent is not None else ""), sub, observed=r,
                          expected=coherent if coherent is not None else sorted(map(str, elems)))
            break
        results.add(ref.canon(r))
        shapes.add(tuple(a for a, _ in log))
        rpos = ref.bucket_index(r)
        # (a) step by step with the observed chooser
        bad = False
        for p, lst in pivots:
            for e in lst:
                if e == p:
                    continue
                ctx.count("steps_checked")
                want = ref.place(e, p, table)
                got = ref.relation_in(rpos, e, p)
                ctx.count(f"placement:{want}")
                if got != want:
                    ctx.violation(f"C11/element-misplaced-relative-to-pivot:{want}-expected", f"pivot {p!r}: element {e!r} "
                                  f"is {got} the pivot in the result {r}, the cheapest placement is {want} "
                                  f"(costs before/after/tied = {[float(v) for v in table[e][p]]})", sub,
                                  observed=got, expected=want)
                    bad = True
                    break
            if bad:
                break
        # (a') existential oracle on the public result alone (memoised search: small universes only)
        if not bad and n <= 20 and not possible_output(r, table):
            ctx.violation("C11/result-is-not-a-possible-kwiksort-output", f"no sequence of pivots explains the result {r} "
                          "with the reference cheapest placements", sub, observed=r)
            bad = True
        # (b) coherent preferences
        if coherent is not None and ref.canon(r) != ref.canon(coherent) and not bad:
            ctx.violation("C11/coherent-preferences-but-pivot-dependent-result", f"preferences cohere into {coherent} but "
                          f"pivots {script} gave {r}", sub, observed=r, expected=coherent)
            bad = True
        if bad:
            break
    ctx.count("sequences", nseq)
    # history: the Dataset object that this KwikSort object has just sorted is mutated in place (or a dataset derived from
    # it is), then sorted again by the same object under a few pivot sequences: judged against the rankings it holds now
    if n >= 2 and n <= 20:
        import random
        r3 = random.Random(case["seqseed"] + 1)
        kind, ok = algos.mutate_in_place(dataset, ds, r3)
        st_now, now = call(libx.raw_dataset, dataset)
        if ok and st_now == "ok" and len(ref.universe(now)) >= 1:
            elems2 = ref.universe(now)
            table2 = ref.cost_table(now, sch, elems2)
            coherent2 = ref.coherent_ranking(now, sch)
            ctx.count("histories:" + kind)
            ctx.count("runs_after_in_place_mutation_by_the_same_object")
            for _ in range(4):
                script = [r3.randrange(1 << 30) for _ in range(2 * len(elems2) + 2)]
                log, (st, cons, pivots) = run(script)
                sub = {"ds": now, "scheme": sch, "pivot_decisions": [k for _, k in log], "after": kind, "original_ds": ds}
                if st == "exc":
                    ctx.violation(f"C11/raises-{type(cons).__name__}", f"KwikSort raised {exc_desc(cons)} after {kind}", sub)
                    break
                r = libx.raw_ranking(cons.consensus_rankings[0])
                if not common.wellformed_raw(r, elems2):
                    ctx.violation("C11/element-not-placed:after-in-place-mutation", f"after {kind}: the result {r} does not "
                                  f"hold exactly the elements {elems2} the dataset holds now", sub, observed=r)
                    break
                if not possible_output(r, table2):
                    ctx.violation("C11/result-is-not-a-possible-kwiksort-output:after-in-place-mutation", f"after {kind} on the "
                                  f"Dataset that the same KwikSort object had sorted: no sequence of pivots explains {r} with the "
                                  "cheapest placements of the rankings it holds now", sub, observed=r)
                    break
                if coherent2 is not None and ref.canon(r) != ref.canon(coherent2):
                    ctx.violation("C11/coherent-preferences-but-pivot-dependent-result:after-in-place-mutation",
                                  f"after {kind}: preferences cohere into {coherent2} but the result is {r}", sub, observed=r,
                                  expected=coherent2)
                    break
    if exhaustive:
        ctx.count("exhaustive_datasets")
        ctx.count("exhaustive_spaces")
    if coherent is not None:
        ctx.count("coherent_datasets")
        if len(coherent) >= 2 and any(len(b) >= 2 for b in coherent):
            ctx.count("coherent_with_tie_and_2_buckets")
    if case["kind"] == "identical":
        ctx.count("identical_datasets")
        want = ref.canon(ds[0])
        if results and results != {want}:
            ctx.violation("C11/identical-rankings-not-returned-unchanged", f"{len(ds)} copies of {ds[0]} gave "
                          f"{[list(map(sorted, r)) for r in results][:3]}", base, expected=ds[0])
    if len(results) >= 2:
        ctx.count("pivot_dependent_datasets")
    if nseq >= 2 and len(shapes) >= 2 and any(len(r) >= 2 for r in results):
        ctx.nontrivial(base)
        ctx.sample({**base, "sequences": nseq, "exhaustive": exhaustive, "distinct_results": len(results),
                    "coherent": coherent, "recursion_shapes": len(shapes)}, key=case["kind"])


def reach(counters, tier, info):
    k = 0.5 if tier == "quick" else 8
    out = []
    v = counters.get("runs_without_decision", 0)
    out.append({"name": "runs on >= 2 elements that consumed no scripted decision", "observed": v, "required": 0,
                "ok": v == 0})
    for name, key, need in [("pivot sequences executed", "sequences", 5000 * k),
                            ("datasets whose pivot sequences were enumerated exhaustively", "exhaustive_datasets", 300 * k),
                            ("coherent datasets", "coherent_datasets", 150 * k),
                            ("coherent datasets with >= 2 buckets and a tie", "coherent_with_tie_and_2_buckets", 40 * k),
                            ("datasets of identical rankings", "identical_datasets", 30 * k),
                            ("KwikSort objects that had served on another dataset under other schemes", "algorithm_objects_reused_from_other_datasets_and_schemes", 200 * k),
                            ("datasets whose result depends on the pivots", "pivot_dependent_datasets", 30 * k),
                            ("datasets sorted again by the same object after an in-place mutation",
                             "runs_after_in_place_mutation_by_the_same_object", 300 * k),
                            ("... where the step is remove_empty_rankings", "histories:remove_empty", 15 * k),
                            ("runs on more than 1000 elements with as many nested pivots as elements",
                             "deep_runs_with_as_many_nested_pivots_as_elements", 2)]:
        v = counters.get(key, 0)
        out.append({"name": name, "observed": v, "required": need, "ok": v >= need})
    for pl in ("before", "after", "tie"):
        v = counters.get("placement:" + pl, 0)
        out.append({"name": f"observed steps whose expected placement is {pl} (advisory: needs the chooser hook)",
                    "observed": v, "required": 500, "ok": v >= 500, "gating": False})
    return out
