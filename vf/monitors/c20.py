"""C20 -- random dataset generators deliver valid datasets of the requested shape."""
import random

from vf import gen, ref, sched
from vf.core import call, exc_desc
from vf.lazy import ck, libx, common, np

PROP = "C20"
TECHNIQUE = ('schedule control: every random draw of the generators is a recorded decision stream; each Markov step re-checked through the public API by prefix replay of the stream; numpy integers as sizes; long incomplete walks on 2-5 elements; decoy objects kept alive')
RULE = ("grid n in 1..8, m in 1..5, steps in {0,1,2,3,5,10,50,200,1000}, both completeness options, four public generators; "
        "the library's random draws go through a scripted source, so every walk is a recorded decision stream "
        "(2 decisions per Markov step); EVERY SINGLE STEP is checked through the public API by prefix replay: for a "
        "recorded walk of K steps the generator is called again with steps = k for every prefix k (all k for K <= 60, 40 "
        "sampled k otherwise) under the same stream and the API-level oracle is applied to each output; non-trivial = "
        "walks with >= 3 distinct move decisions; distinct = digest of (n, m, steps, option, decision stream)")
ASSUMPTIONS = ["CPython: randint / shuffle draw through Random._randbelow", "n <= 8, steps <= 1000"]
SUMMARY_KEYS = ["calls", "prefix_replays", "decisions", "emptied_rankings", "empty_dataset_exceptions"]
CRASH_IS_VIOLATION = False
STEPS = [0, 1, 2, 3, 5, 10, 50, 200, 1000]


def setup(ctx):
    ctx.scripted = sched.ScriptedRandom()
    import corankco.ranking  # noqa: F401
    import corankco.algorithms.kwiksort.kwiksortrandom  # noqa: F401
    ctx.rebound = sched.install(ctx.scripted)
    for nm in ctx.rebound:
        ctx.setadd("rebound", nm)


def plan(tier, seed):
    if tier == "quick":
        return [{"n_cases": 450, "mode": "A", "hashseed": i % 2} for i in range(8)]
    return [{"n_cases": 5000, "mode": "A", "hashseed": i % 4} for i in range(14)]


def gen_case(rng, ctx):
    which = rng.choice(["markov", "markov", "markov", "markov_dataset", "uniform", "uniform_dataset"])
    n = rng.randint(1, 8)
    m = rng.randint(1, 5)
    steps = rng.choice(STEPS)
    if rng.random() < 0.04:
        # sizes around the limits of narrow integer types, short walks (the bucket ids still span the whole range)
        n = rng.choice([127, 128, 129, 255, 256, 257])
        m = rng.randint(1, 3)
        steps = rng.choice([0, 0, 1, 2, 5, 10])
        which = rng.choice(["markov", "markov_dataset", "uniform"])
        return {"which": which, "n": n, "m": m, "steps": steps, "complete": rng.random() < 0.5,
                "stream_seed": rng.randrange(10 ** 9), "size_class": "narrow-int-limits"}
    if rng.random() < 0.12:
        # long incomplete walks on very few elements: the ranking keeps shrinking to one bucket / to nothing and growing
        # again (removal of the last elements, re-insertion into an empty or one-bucket ranking)
        return {"which": rng.choice(["markov", "markov", "markov_dataset"]), "n": rng.choice([2, 3, 3, 4, 4, 5]),
                "m": rng.randint(3, 8), "steps": rng.choice([60, 100, 150, 300]), "complete": False,
                "stream_seed": rng.randrange(10 ** 9), "size_class": "few-elements-long-incomplete-walk"}
    if steps == 1000 and rng.random() < 0.7:
        steps = rng.choice([20, 30, 100])
    return {"which": which, "n": n, "m": m, "steps": steps, "complete": rng.random() < 0.5,
            "stream_seed": rng.randrange(10 ** 9), "argtype": rng.choice(["int"] * 8 + ["int64", "int32", "uint8"])}


def ranking_ok(raw, n, lo, complete):
    """buckets non-empty, disjoint, elements are ints within lo..lo+n-1; all n elements when complete"""
    seen = set()
    for b in raw:
        if len(b) == 0:
            return "empty bucket"
        for e in b:
            if not isinstance(e, int) or isinstance(e, bool):
                return f"element {e!r} is not an int"
            if not lo <= e < lo + n:
                return f"element {e!r} outside {lo}..{lo + n - 1}"
            if e in seen:
                return f"element {e!r} in two buckets"
            seen.add(e)
    if complete and len(seen) != n:
        return f"{len(seen)} elements instead of {n}"
    return None


def judge_rankings(ctx, case, rankings, n, m, complete, label, lo=0, no_ties=False):
    if not isinstance(rankings, list):
        ctx.violation(f"C20/{label}-not-a-list", f"{type(rankings).__name__} returned", case)
        return False
    if complete and len(rankings) != m:
        ctx.violation(f"C20/{label}-wrong-number-of-rankings", f"{len(rankings)} rankings instead of {m}", case,
                      observed=len(rankings), expected=m)
        return False
    if len(rankings) > m:
        ctx.violation(f"C20/{label}-too-many-rankings", f"{len(rankings)} rankings, {m} requested", case)
        return False
    for r in rankings:
        probs = common.ranking_problems(r)
        raw = libx.raw_ranking(r)
        why = ranking_ok(raw, n, lo, complete)
        if why is None and no_ties and any(len(b) != 1 for b in raw):
            why = "tie in a uniform permutation"
        if why is None and not complete and len(raw) == 0:
            why = "empty ranking returned"
        if why is None and probs:
            why = probs[0][1]
        if why:
            ctx.violation(f"C20/{label}-ill-formed-ranking", f"{label}(n={n}, m={m}, steps={case.get('steps')}, "
                          f"complete={complete}) returned {raw}: {why}", case, observed=raw)
            return False
    return True


def check_case(case, ctx):
    common.set_case(ctx, case)
    n, m, steps, complete, which = case["n"], case["m"], case["steps"], case["complete"], case["which"]
    # the same sizes as the integer types a caller's loop produces: numpy integers (np.arange, array items), bools for the
    # completeness option; the model below keeps the plain values
    argtype = case.get("argtype", "int")
    if argtype != "int":
        conv = {"int64": np.int64, "int32": np.int32, "uint8": np.uint8}[argtype]
        ctx.count("calls_with_numpy_integer_sizes")
        n_arg, m_arg, steps_arg = conv(n), conv(m), (conv(steps) if argtype != "uint8" or steps < 256 else steps)
        complete_arg = np.bool_(complete) if case["stream_seed"] % 2 else complete
    else:
        n_arg, m_arg, steps_arg, complete_arg = n, m, steps, complete
    sc = ctx.scripted
    ctx.count("calls")
    ctx.count("which:" + which)
    ctx.count(f"cell:n{n}" if n <= 8 else "cell:narrow-int-limits")
    ctx.count(f"steps:{steps}")
    if which in ("uniform", "uniform_dataset"):
        sc.restart(script=[], tail="random", seed=case["stream_seed"])
        if which == "uniform":
            st, res = call(ck.Ranking.uniform_permutations, n_arg, m_arg)
            if st == "ok":
                judge_rankings(ctx, case, res, n, m, True, "uniform_permutations", lo=1, no_ties=True)
        else:
            st, res = call(ck.Dataset.get_uniform_permutation_dataset, n_arg, m_arg)
            if st == "ok":
                if judge_rankings(ctx, case, res.rankings, n, m, True, "get_uniform_permutation_dataset", lo=1, no_ties=True):
                    if not res.is_complete or not res.without_ties or res.nb_rankings != m or res.nb_elements != n:
                        ctx.violation("C20/uniform-dataset-flags-wrong", f"complete={res.is_complete} without_ties="
                                      f"{res.without_ties} nb_rankings={res.nb_rankings} nb_elements={res.nb_elements}", case)
        if st == "exc":
            ctx.violation(f"C20/{which}-raises-{type(res).__name__}", exc_desc(res), case)
        ctx.count("decisions", len(sc.log))
        if len(sc.log) == 0 and n >= 2:
            ctx.count("calls_without_decision")
        ctx.nontrivial({**case, "stream": [k for _, k in sc.log][:40]})
        return
    # -- Markov generators ----------------------------------------------------------------------------
    sc.restart(script=[], tail="random", seed=case["stream_seed"])
    if which == "markov":
        st, res = call(ck.Ranking.generate_rankings, n_arg, m_arg, steps_arg, complete_arg)
    else:
        st, res = call(ck.Dataset.get_random_dataset_markov, n_arg, m_arg, steps_arg, complete_arg)
    log = list(sc.log)
    stream = [k for _, k in log]
    ctx.count("decisions", len(log))
    if len(log) != 2 * steps * m:
        ctx.count("decision_count_differs_from_2_steps_m")
    sub = {**case, "stream": stream[:400]}
    if st == "exc":
        if which == "markov_dataset" and isinstance(res, ck.EmptyDatasetException) and not complete:
            # legitimate only if every ranking lost every element: replay through generate_rankings
            sc.restart(script=stream, tail="zero")
            st2, rk = call(ck.Ranking.generate_rankings, n, m, steps, complete)
            ctx.count("empty_dataset_exceptions")
            if st2 == "ok" and len(rk) > 0:
                ctx.violation("C20/empty-dataset-exception-although-elements-remain", f"EmptyDatasetException but the "
                              f"same walk leaves {len(rk)} non-empty ranking(s)", sub)
            return
        ctx.violation(f"C20/{which}-raises-{type(res).__name__}", f"(n={n}, m={m}, steps={steps}, complete={complete}): "
                      + exc_desc(res), sub, observed=type(res).__name__)
        return
    rankings = res if which == "markov" else res.rankings
    ok = judge_rankings(ctx, case, rankings, n, m, complete, which)
    if ok and which == "markov_dataset":
        if complete and (not res.is_complete or res.nb_rankings != m or res.nb_elements != n):
            ctx.violation("C20/complete-dataset-flags-wrong", f"is_complete={res.is_complete} nb_rankings="
                          f"{res.nb_rankings} nb_elements={res.nb_elements}", sub)
        probs = common.dataset_problems(res)
        if probs:
            ctx.violation(probs[0][0] + ":generated-dataset", probs[0][1], sub)
    if not complete and len(rankings) < m:
        ctx.count("emptied_rankings", m - len(rankings))
    # move statistics from the decision stream (arity 5 / 4 decisions are the moves)
    moves = set()
    for i in range(1, len(log), 2):
        ar, k = log[i]
        ctx.count(f"move:{'complete' if complete else 'incomplete'}:{k + 1}")
        moves.add(k)
    # -- every single step through the public API: prefix replay of the first ranking's walk -----------
    if ok and steps > 0 and len(log) >= 2 * steps:
        walk = stream[:2 * steps]
        ks = list(range(0, steps + 1)) if steps <= 60 else sorted(random.Random(case["stream_seed"]).sample(range(steps + 1), 40))
        for k in ks:
            sc.restart(script=walk[:2 * k], tail="zero")
            st3, rk = call(ck.Ranking.generate_rankings, n, 1, k, complete)
            ctx.count("prefix_replays")
            if len(sc.log) != 2 * k:
                ctx.count("prefix_replay_consumed_unexpected_decisions")
            subk = {**case, "m": 1, "steps": k, "stream": walk[:2 * k]}
            if st3 == "exc":
                ctx.violation(f"C20/markov-raises-{type(rk).__name__}", f"generate_rankings({n}, 1, {k}, {complete}) "
                              f"raised {exc_desc(rk)}", subk)
                break
            if not judge_rankings(ctx, subk, rk, n, 1, complete, "markov"):
                break
    if len(moves) >= 3:
        ctx.nontrivial({**case, "stream": stream[:60]})
        ctx.sample({**case, "returned": [libx.raw_ranking(r) for r in rankings][:3], "decisions": len(log)},
                   key=f"{which}{complete}")


def reach(counters, tier, info):
    k = 0.5 if tier == "quick" else 20
    out = []
    v = counters.get("decision_count_differs_from_2_steps_m", 0)
    out.append({"name": "Markov calls whose decision count differs from 2 x steps x m", "observed": v, "required": 0,
                "ok": v == 0})
    v = counters.get("calls_with_numpy_integer_sizes", 0)
    out.append({"name": "calls whose sizes are numpy integers (int64 / int32 / uint8)", "observed": v, "required": 300 * k,
                "ok": v >= 300 * k})
    v = counters.get("calls_without_decision", 0)
    out.append({"name": "uniform calls (n >= 2) that consumed no scripted decision", "observed": v, "required": 0, "ok": v == 0})
    for opt, hi in (("incomplete", 5), ("complete", 4)):
        for mv in range(1, hi + 1):
            v = counters.get(f"move:{opt}:{mv}", 0)
            out.append({"name": f"move decision {mv} drawn ({opt})", "observed": v, "required": 1000 * k, "ok": v >= 1000 * k})
    for name, key, need in [("prefix replays", "prefix_replays", 20000 * k), ("walks that emptied a ranking", "emptied_rankings", 50 * k),
                            ("generator calls", "calls", 2000 * k)]:
        v = counters.get(key, 0)
        out.append({"name": name, "observed": v, "required": need, "ok": v >= need})
    v = counters.get("cell:narrow-int-limits", 0)
    out.append({"name": "calls with n around 128 / 256", "observed": v, "required": 40 * k, "ok": v >= 40 * k})
    for n in range(1, 9):
        v = counters.get(f"cell:n{n}", 0)
        out.append({"name": f"calls with n={n}", "observed": v, "required": 100 * k, "ok": v >= 100 * k})
    return out
