"""C06 -- ParCons: the partition admits an optimal consensus; the optimality flag is truthful."""
from vf import gen, ref
from vf.core import call, exc_desc
from vf.lazy import ck, libx, common
from vf.monitors import algos

PROP = "C06"
TECHNIQUE = ('runtime monitoring: partition / consensus / flag of ParCons with a recording proxy as auxiliary algorithm, judged against the DP optimum restricted to the partition vs the global optimum; composite block oracle for 11-40 elements; same objects again after an in-place mutation')
RULE = ("cases = dataset (D7, D9, D10 first: sparse rankings missing a whole component, >= 3 components; D2-D4, D8; n<=8 "
        "quick, <=10 thorough; 8 % of the cases: 11-24 (thorough: -40) elements in ordered blocks judged by the composite "
        "oracle ref.BlockOptimum, applied only when the cost table shows 'before' to be a cheapest placement of every "
        "cross-block pair) x scheme (S1-S3, S6; B[5] != T[5] often) x ParCons configuration (bound_for_exact in "
        "{0,2,3,80}, auxiliary BioConsert/KwikSort/Copeland/BioCo wrapped in a recording proxy) x CPLEX absent / stand-in; "
        "oracle = subset DP (optimum restricted to rankings respecting the partition vs global optimum); non-trivial = "
        ">= 3 groups in the partition or a component of size >= 3 solved; distinct = digest of (dataset, scheme, config)")
ASSUMPTIONS = ["reference model vf/ref.py", "CPLEX branch observed through the generic stand-in only", "dyadic penalties"]
SUMMARY_KEYS = ["partitions", "parcons_runs", "exact_component_runs", "aux_component_runs", "flag_true", "flag_false"]
THOROUGH_SCALE = 4
CRASH_IS_VIOLATION = False
TIMEOUT = {"quick": 900, "thorough": 7200}
AUX = ["BioConsert", "KwikSort", "Copeland", "BioCo"]
OTHERS = ["Pulp", "Exact", "BioConsert", "Copeland", "Borda", "PickAPerm", "KwikSort"]


def setup(ctx):
    algos.install_ilp_counter()


def plan(tier, seed):
    if tier == "quick":
        return ([{"n_cases": 140, "mode": "A", "hashseed": i % 2} for i in range(8)] +
                [{"n_cases": 50, "mode": "AD", "hashseed": i % 2} for i in range(4)])
    return ([{"n_cases": 500, "mode": "A", "hashseed": i % 4} for i in range(10)] +
            [{"n_cases": 450, "mode": "AD", "hashseed": i % 4} for i in range(6)])


def gen_case(rng, ctx):
    gen.OUTLIER["n_only_up_to"] = 10      # the exact oracle limits the number of elements; rankings are not limited
    thorough = ctx.tier == "thorough"
    nmax = (10 if rng.random() < 0.15 else 8) if thorough else (8 if rng.random() < 0.3 else 7)
    if rng.random() < 0.08:
        # beyond the subset DP: 11-40 elements in ordered blocks of 1-5, judged by the composite oracle ref.BlockOptimum
        # (which decides on the cost table whether its decomposition argument applies)
        n = rng.choice([11, 12, 14, 16, 20, 24, 30, 40] if thorough else [11, 12, 13, 14, 16, 20, 24])
        ds, blocks = gen.block_dataset(rng, n)
        ei = ref.expected_type_is_int(ds)
        ds = libx.normalise_raw(ds)
        blocks = [[libx.lib_value(e, ei) for e in b] for b in blocks]
        scls, sch = gen.scheme(rng, "S1 S1 S2 S3 S3 S6 S11")
        return {"ds": ds, "scheme": sch, "dcls": "blocks", "scls": scls, "blocks": blocks, "bound": rng.choice([0, 2, 3, 3, 80]),
                "aux": rng.choice(AUX), "libseed": rng.randrange(10 ** 6),
                "other": rng.choice(OTHERS if n <= 14 else [o for o in OTHERS if o not in ("Pulp", "Exact")])}
    if rng.random() < 0.18:
        # components that some voters tie, some order and some miss entirely, under schemes whose two penalties for a pair
        # of unranked elements differ: the sub-problem of a component must keep counting the voters that miss it
        cls, ds = gen.dataset(rng, cls="D23", n=rng.choice([4, 5, 6, 7, 8] if thorough else [4, 5, 6, 7]), mmax=6)
        ds = libx.normalise_raw(ds)
        scls, sch = gen.scheme(rng, "S15 S15 S15 S13 S1")
        ctx.count("gen:D23xS15")
        return {"ds": ds, "scheme": sch, "dcls": "D23", "scls": scls, "bound": rng.choice([0, 2, 3, 80, 80]),
                "aux": rng.choice(AUX), "libseed": rng.randrange(10 ** 6), "other": rng.choice(OTHERS)}
    if rng.random() < 0.04:
        # a component held together by ties only around a perfectly balanced pair (gen D26)
        cls, ds = gen.dataset(rng, cls="D26", n=rng.choice([3, 4, 5, 6]))
        ds = libx.normalise_raw(ds)
        return {"ds": ds, "scheme": gen.scheme(rng, "S1 S1 S2 S3")[1], "dcls": cls, "scls": "S1", "bound": rng.choice([0, 2, 80, 80]), "aux": rng.choice(AUX), "libseed": rng.randrange(10 ** 6), "other": rng.choice(OTHERS)}
    if rng.random() < 0.06:
        # every pair inverted as often as not, the decision left to who ranks whom, under schemes whose penalties for
        # unranked elements are 2^-20 of the others: costs equal up to a relative 1e-6 and different in fact
        cls, ds = gen.dataset(rng, cls="D25", n=rng.choice([3, 4, 5, 6]), mmax=6)
        ds = libx.normalise_raw(ds)
        return {"ds": ds, "scheme": gen.scheme(rng, "S17 S17 S16 S1 S1 S2 S3")[1], "dcls": cls, "scls": "S17", "bound": rng.choice([0, 2, 80, 80]), "aux": rng.choice(AUX), "libseed": rng.randrange(10 ** 6), "other": rng.choice(OTHERS)}
    if rng.random() < 0.4:
        # several non-trivial components of different sizes (blocks of 3 and 4 with pure rotations), bound between the sizes:
        # some components go to the auxiliary algorithm, others to the exact solver, in both orders
        n = rng.choice([6, 7, 7, 8, 8, 9] if thorough else [6, 7, 7, 8])
        cls, ds = gen.dataset(rng, cls="D11", n=n, m=rng.choice([3, 3, 6]), mmax=6)
        ds = libx.normalise_raw(ds)
        scls, sch = gen.scheme(rng, "S1 S1 S11 S3")
        return {"ds": ds, "scheme": sch, "dcls": "D11-mixed", "scls": scls, "bound": rng.choice([2, 3, 3]),
                "aux": rng.choice(AUX), "libseed": rng.randrange(10 ** 6), "other": rng.choice(OTHERS)}
    cls, ds = gen.dataset(rng, classes="D11 D11 D11 D11 D9 D9 D7 D10 D3 D4 D8 D2 D2 D2 D15 D15 D13 D20 D20 D20 D14 D14", nmax=nmax, mmax=6)
    ds = libx.normalise_raw(ds)
    scls, sch = gen.scheme(rng, "S1 S1 S2 S3 S3 S3 S6 S9 S11 S11 S16 S16")
    return {"ds": ds, "scheme": sch, "dcls": cls, "scls": scls, "bound": rng.choice([0, 2, 2, 3, 80]),
            "aux": rng.choice(AUX), "libseed": rng.randrange(10 ** 6), "other": rng.choice(OTHERS)}


def make_proxy(inner, log):
    RankAggAlgorithm = ck.algorithms.RankAggAlgorithm

    class RecordingProxy(RankAggAlgorithm):
        """delegates to a real algorithm and logs the calls it receives"""

        def compute_consensus_rankings(self, dataset, scoring_scheme, return_at_most_one_ranking=True, bench_mode=False):
            log.append(libx.raw_dataset(dataset))
            return inner.compute_consensus_rankings(dataset, scoring_scheme, return_at_most_one_ranking, bench_mode)

        def get_full_name(self):
            return "proxy(" + inner.get_full_name() + ")"

        def is_scoring_scheme_relevant_when_incomplete_rankings(self, scoring_scheme):
            return inner.is_scoring_scheme_relevant_when_incomplete_rankings(scoring_scheme)

    return RecordingProxy()


def raw_groups(groups):
    return [[e.value for e in g] for g in groups]


def check_case(case, ctx):
    judge(case, ctx, case["ds"], None)
    # history: a Dataset object that ParCons and the partition code have just used is mutated in place (or a dataset derived
    # from it is) and partitioned / aggregated again: judged against the rankings it holds now
    ds = case["ds"]
    if not case.get("blocks") and len(ref.universe(ds)) >= 3 and case["libseed"] % 3 == 0:
        import random
        shared = libx.mk_dataset(ds)
        call(ck.OrderedPartition.parcons_partition, shared, libx.mk_scheme(case["scheme"]))
        call(lambda: ck.ParCons().compute_consensus_rankings(shared, libx.mk_scheme(case["scheme"]), True))
        r2 = random.Random(case["libseed"])
        kind, ok = algos.mutate_in_place(shared, ds, r2)
        st_now, now = call(libx.raw_dataset, shared)
        if ok and st_now == "ok" and len(ref.universe(now)) >= 2:
            ctx.count("runs_after_in_place_mutation")
            ctx.count("history:" + kind)
            judge({**case, "after": kind, "original_ds": ds}, ctx, now, shared)


def judge(case, ctx, ds, dataset):
    sch = case["scheme"]
    common.set_case(ctx, case)
    if dataset is None:
        dataset = libx.mk_dataset(ds)
    scheme = libx.mk_scheme(sch)
    elems = ref.universe(ds)
    n = len(elems)
    blocks = case.get("blocks")
    strict_blocks = False
    if blocks:
        dp = ref.BlockOptimum(ds, sch, blocks)
        if not dp.ok:
            ctx.count("blocks_not_decomposable")
            return
        ctx.count("blocks_judged")
        strict_blocks = dp.strict
    else:
        dp = ref.optimum_dp(ds, sch, elems)
    best = dp.value
    base = {"ds": ds, "scheme": sch}
    if case.get("after"):
        base["after"], base["original_ds"] = case["after"], case["original_ds"]
    ctx.count("class:" + case.get("dcls", "?"))
    # -- the partition itself ---------------------------------------------------------------------
    st, part = call(ck.OrderedPartition.parcons_partition, dataset, scheme)
    if st == "exc":
        ctx.violation(f"C06/partition-raises-{type(part).__name__}", "parcons_partition raised " + exc_desc(part), base)
        return
    groups = raw_groups(part.partition)
    ctx.count("partitions")
    ctx.count(f"groups:{min(len(groups), 4)}")
    if not ref.is_partition_of(groups, elems):
        ctx.violation("C06/not-a-partition", f"parcons_partition {groups} is not a partition of the universe", base,
                      observed=groups, expected=sorted(map(str, elems)))
        return
    restricted = dp.best_respecting(groups)
    if restricted is None and not strict_blocks:
        ctx.count("blocks_partition_undecided")
    elif restricted is None:
        # the partition inverts two blocks although 'earlier block before later block' is strictly cheapest on every
        # cross pair: every optimal consensus is a concatenation in block order and cannot respect it
        ctx.violation("C06/no-optimal-consensus-respects-partition",
                      f"no optimal consensus respects the ParCons partition {groups}: it inverts two blocks of {blocks} "
                      f"whose order is strictly cheapest on every cross pair", base, observed=groups, expected=blocks)
    elif restricted != best:
        ctx.violation("C06/no-optimal-consensus-respects-partition",
                      f"no optimal consensus respects the ParCons partition {groups}: best respecting = "
                      f"{float(restricted)}, optimum = {float(best)}", base, observed=restricted, expected=best)
    # sparse rankings: some ranking misses a whole multi-element group
    if any(len(g) >= 2 and any(not (set(g) & set(ref.bucket_index(r))) for r in ds) for g in groups):
        ctx.count("ranking_misses_whole_component")
    # -- the ParCons algorithm ----------------------------------------------------------------------
    log = []
    st, inner = call(libx.make_algorithm, case["aux"])
    proxy = make_proxy(inner, log)
    cfgs = [("ParCons(proxy:%s;%d)" % (case["aux"], case["bound"]),
             lambda: ck.ParCons(auxiliary_algorithm=proxy, bound_for_exact=case["bound"])),
            ("ParCons", lambda: ck.ParCons())]
    for name, mk in cfgs:
        del log[:]
        sub = {**base, "config": name, "libseed": case["libseed"], "cplex": "stand-in" if "D" in ctx.mode else "absent"}
        libx.seed_library(case["libseed"])
        before = algos.ilp_count()
        st, cons = call(lambda: mk().compute_consensus_rankings(dataset, scheme, True))
        ilps = algos.ilp_count() - before
        ctx.count("parcons_runs")
        ctx.unit()
        if st == "exc":
            if isinstance(cons, libx.DOCUMENTED_REFUSALS) and not ref.is_complete(ds):
                ctx.count("parcons_refused")
                continue
            ctx.violation(f"C06/parcons-raises-{type(cons).__name__}", f"{name} raised {exc_desc(cons)}", sub,
                          observed=type(cons).__name__)
            continue
        try:
            r0 = libx.raw_ranking(cons.consensus_rankings[0])
        except Exception:      # pylint: disable=broad-except
            continue
        if not common.wellformed_raw(r0, elems):
            ctx.count("ill_formed_left_to_C03")
            continue
        if not ref.respects(r0, groups):
            ctx.violation("C06/consensus-does-not-respect-partition", f"{name}: consensus {r0} does not respect the "
                          f"ParCons partition {groups}", sub, observed=r0, expected=groups)
        weak = cons.features.get(ck.ConsensusFeature.WEAK_PARTITIONING)
        try:
            weak_raw = raw_groups(weak)
        except Exception:      # pylint: disable=broad-except
            weak_raw = None
        if weak_raw is None or [set(g) for g in weak_raw] != [set(g) for g in groups]:
            ctx.violation("C06/weak-partitioning-feature-differs", f"{name}: WEAK_PARTITIONING {weak_raw} differs from "
                          f"parcons_partition {groups}", sub, observed=weak_raw, expected=groups)
        flag = cons.necessarily_optimal
        score = ref.kemeny(r0, ds, sch)
        aux_called = len(log) > 0
        if ilps and any(len(g) >= 3 for g in groups):
            ctx.count("exact_component_runs")
        if name != "ParCons":
            if aux_called:
                ctx.count("aux_component_runs")
                if ilps:
                    ctx.count("runs_mixing_exact_and_auxiliary_components")
            if bool(flag) != (not aux_called):
                ctx.violation("C06/flag-does-not-match-delegation", f"{name}: necessarily_optimal={flag} but the "
                              f"auxiliary algorithm received {len(log)} call(s)", sub, observed=flag,
                              expected=not aux_called)
        ctx.count("flag_true" if flag else "flag_false")
        if flag and score != best:
            ctx.violation("C06/flagged-optimal-but-suboptimal:ParCons", f"{name}: consensus {r0} flagged necessarily "
                          f"optimal has score {float(score)}, optimum {float(best)}", sub, observed=score, expected=best)
        if len(groups) >= 3 or (ilps and any(len(g) >= 3 for g in groups)):
            ctx.nontrivial(sub)
            ctx.sample({**sub, "partition": groups, "consensus": r0, "flag": bool(flag), "aux_calls": len(log),
                        "optimum": float(best)}, key=name.split("(")[0] + str(bool(flag)))
    # -- the flag of every other algorithm --------------------------------------------------------------
    other = case["other"]
    sub = {**base, "config": other, "libseed": case["libseed"], "cplex": "stand-in" if "D" in ctx.mode else "absent"}
    st, cons, _ = algos.run_config(other, dataset, scheme, True, case["libseed"])
    if st == "ok":
        try:
            flag = cons.necessarily_optimal
            r0 = libx.raw_ranking(cons.consensus_rankings[0])
        except Exception:      # pylint: disable=broad-except
            return
        ctx.count("other_flags")
        if flag:
            ctx.count("other_flag_true")
            if common.wellformed_raw(r0, elems) and ref.kemeny(r0, ds, sch) != best:
                ctx.violation(f"C06/flagged-optimal-but-suboptimal:{other}", f"{other}: consensus {r0} is flagged "
                              f"necessarily optimal but the optimum is {float(best)}", sub,
                              observed=ref.kemeny(r0, ds, sch), expected=best)


def reach(counters, tier, info):
    k = 0.5 if tier == "quick" else 8
    out = []
    for name, key, need in [("cases where the exact sub-solver ran on a component of size >= 3", "exact_component_runs", 100 * k),
                            ("cases where the auxiliary algorithm ran", "aux_component_runs", 100 * k),
                            ("cases where a ranking misses an entire multi-element component",
                             "ranking_misses_whole_component", 60 * k),
                            ("partitions with >= 3 groups", "groups:3", 40 * k),
                            ("runs where some components went to the exact solver and others to the auxiliary algorithm",
                             "runs_mixing_exact_and_auxiliary_components", 10 * k),
                            ("consensuses flagged optimal", "flag_true", 200 * k),
                            ("consensuses not flagged optimal", "flag_false", 100 * k),
                            ("flags of other algorithms read", "other_flags", 200 * k),
                            ("Dataset objects partitioned / aggregated again after an in-place mutation",
                             "runs_after_in_place_mutation", 100 * k),
                            ("datasets of 11+ elements judged by the composite block oracle", "blocks_judged", 30 * k)]:
        v = counters.get(key, 0) + (counters.get("groups:4", 0) if key == "groups:3" else 0)
        out.append({"name": name, "observed": v, "required": need, "ok": v >= need})
    return out
