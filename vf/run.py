"""
Orchestrator (parent process, stdlib only).

    python -m vf.run <PROP> quick|thorough          run the property's check
    python -m vf.run <PROP> --replay <witness.json>  re-execute one witness (raising monitors)

Exit codes: 0 held on what was observed (KNOWN-FINDING lines allowed), 1 violation,
2 inconclusive (a gating reach condition failed or a watchdog fired), 3 broken check.
"""
import hashlib
import importlib
import json
import os
import shutil
import subprocess
import sys
import time

from vf import anchors

HERE = os.path.dirname(os.path.abspath(__file__))
VERIF = os.path.dirname(HERE)
PY = "/venv/bin/python"
DEPS = os.path.join(VERIF, ".deps")
WORK = os.path.join(VERIF, ".work")
WHEELS = "/opt/veriftools/wheels"


def repo_dir():
    return os.path.abspath(os.environ.get("VERIF_REPO", "/repo"))


def ensure_deps(extra=()):
    """icontract / jsonschema (and atheris on request) beside the repository's interpreter"""
    need = ["icontract", "jsonschema"] + list(extra)
    missing = [p for p in need if not os.path.isdir(os.path.join(DEPS, p))]
    if not missing:
        return
    os.makedirs(DEPS, exist_ok=True)
    cmd = [PY, "-m", "pip", "install", "-q", "--no-index", "--find-links", WHEELS, "--target", DEPS] + missing
    r = subprocess.run(cmd, stdout=subprocess.PIPE, stderr=subprocess.STDOUT, text=True)
    if r.returncode != 0:
        print("BROKEN-CHECK: cannot install dependencies offline:\n" + r.stdout[-2000:])
        sys.exit(3)


def source_hash(repo):
    h = hashlib.sha256()
    root = os.path.join(repo, "corankco")
    for dirpath, dirnames, filenames in sorted(os.walk(root)):
        dirnames.sort()
        if "__pycache__" in dirpath:
            continue
        for fn in sorted(filenames):
            if fn.endswith(".py"):
                p = os.path.join(dirpath, fn)
                h.update(os.path.relpath(p, root).encode())
                with open(p, "rb") as f:
                    h.update(f.read())
    return h.hexdigest()[:16]


def file_sha(path):
    try:
        with open(path, "rb") as f:
            return hashlib.sha256(f.read()).hexdigest()
    except OSError:
        return None


def numba_cache_dir(srchash, mode):
    flavour = "B" if "B" in mode else ("C" if "C" in mode else "A")
    base = os.path.join(WORK, "numba")
    os.makedirs(base, exist_ok=True)
    # remove caches of other source versions (disk is limited); tolerate concurrent checks
    for name in os.listdir(base):
        if not name.startswith(srchash):
            p = os.path.join(base, name)
            try:
                if time.time() - os.path.getmtime(p) > 1800:
                    shutil.rmtree(p, ignore_errors=True)
            except OSError:
                pass
    d = os.path.join(base, f"{srchash}-{flavour}")
    os.makedirs(d, exist_ok=True)
    os.utime(d, None)
    return d


def child_env(repo, srchash, mode, hashseed, tmpdir):
    env = dict(os.environ)
    paths = [repo, VERIF, DEPS]
    if "D" in mode:
        paths.insert(0, os.path.join(HERE, "standin"))
    env["PYTHONPATH"] = os.pathsep.join(paths)
    env["PYTHONHASHSEED"] = str(hashseed)
    env["NUMBA_CACHE_DIR"] = numba_cache_dir(srchash, mode)
    env["TMPDIR"] = tmpdir
    env["CORANKCO_VERIF"] = "1"
    env["VERIF_MODE"] = mode
    env.pop("NUMBA_BOUNDSCHECK", None)
    env.pop("NUMBA_DISABLE_JIT", None)
    if "B" in mode:
        env["NUMBA_BOUNDSCHECK"] = "1"
    if "C" in mode:
        env["NUMBA_DISABLE_JIT"] = "1"
    env["OMP_NUM_THREADS"] = "1"
    env["NUMBA_NUM_THREADS"] = "1"
    return env


def load_known():
    p = os.path.join(VERIF, "known_findings.json")
    if not os.path.exists(p):
        return []
    with open(p) as f:
        return json.load(f)


def run_children(prop, specs, repo, srchash, rundir, max_par, timeout_s):
    """run shard children with bounded parallelism; returns list of (spec, result|None, status)"""
    pending = list(enumerate(specs))
    running = []
    done = []
    while pending or running:
        while pending and len(running) < max_par:
            i, spec = pending.pop(0)
            specfile = os.path.join(rundir, f"spec{i}.json")
            outfile = os.path.join(rundir, f"out{i}.json")
            spec["inflight"] = os.path.join(rundir, f"inflight{i}.json")
            with open(specfile, "w") as f:
                json.dump(spec, f)
            tmpdir = os.path.join(rundir, f"tmp{i}")
            os.makedirs(tmpdir, exist_ok=True)
            env = child_env(repo, srchash, spec.get("mode", "A"), spec.get("hashseed", 0), tmpdir)
            errf = open(os.path.join(rundir, f"err{i}.txt"), "w")
            p = subprocess.Popen([PY, "-m", "vf.core", specfile, outfile], cwd=VERIF, env=env,
                                 stdout=subprocess.DEVNULL, stderr=errf)
            running.append((i, spec, p, time.time(), outfile, errf))
        time.sleep(0.05)
        still = []
        for item in running:
            i, spec, p, t0, outfile, errf = item
            rc = p.poll()
            if rc is None:
                if time.time() - t0 > spec.get("timeout_s", timeout_s):
                    p.kill()
                    p.wait()
                    errf.close()
                    done.append((spec, None, "watchdog"))
                else:
                    still.append(item)
                continue
            errf.close()
            if rc == 0 and os.path.exists(outfile):
                with open(outfile) as f:
                    done.append((spec, json.load(f), "ok"))
            else:
                done.append((spec, None, f"exit{rc}"))
        running = still
    return done


def tail(path, n=1500):
    try:
        with open(path) as f:
            return f.read()[-n:]
    except OSError:
        return ""


def main(argv):
    if len(argv) < 3:
        print(__doc__)
        return 3
    prop = argv[1].upper()
    sys.path.insert(0, VERIF)
    repo = repo_dir()
    if argv[2] == "--replay":
        ensure_deps()
        srchash = source_hash(repo)
        with open(argv[3]) as f:
            wit = json.load(f)
        rundir = os.path.join(WORK, f"replay-{prop}-{os.getpid()}")
        os.makedirs(rundir, exist_ok=True)
        env = child_env(repo, srchash, wit.get("mode", "A"), wit.get("hashseed") or 0, rundir)
        r = subprocess.run([PY, "-m", "vf.core", "--replay", prop, os.path.abspath(argv[3])], cwd=VERIF, env=env)
        shutil.rmtree(rundir, ignore_errors=True)
        return r.returncode
    tier = argv[2]
    if tier not in ("quick", "thorough"):
        print("tier must be quick or thorough")
        return 3
    seed = int(os.environ.get("VERIF_SEED", "0"))
    t0 = time.time()
    mod = importlib.import_module("vf.monitors." + prop.lower())
    extra = getattr(mod, "EXTRA_DEPS", ())
    ensure_deps(extra.get(tier, ()) if isinstance(extra, dict) else extra)

    # oracle self test (a broken oracle is a broken check, never a VIOLATION)
    from vf import ref
    try:
        ref.selftest()
    except Exception as exc:      # pylint: disable=broad-except
        print(f"BROKEN-CHECK: reference model self-test failed: {exc!r}")
        return 3

    if not os.path.isdir(os.path.join(repo, "corankco")):
        print(f"BROKEN-CHECK: no corankco package under {repo}")
        return 3
    srchash = source_hash(repo)
    rundir = os.path.join(WORK, f"{prop}-{tier}-{os.getpid()}")
    shutil.rmtree(rundir, ignore_errors=True)
    os.makedirs(rundir)

    specs = mod.plan(tier, seed)
    if tier == "thorough":
        # depth of the thorough tier: the plans give the relative shard sizes, this factor the absolute depth
        scale = float(os.environ.get("VERIF_THOROUGH_SCALE", getattr(mod, "THOROUGH_SCALE", 6)))
        for spec in specs:
            if spec.get("n_cases"):
                spec["n_cases"] = int(spec["n_cases"] * scale)
    for i, spec in enumerate(specs):
        spec.setdefault("prop", prop)
        spec.setdefault("tier", tier)
        spec.setdefault("seed", seed)
        spec.setdefault("shard", i)
        spec.setdefault("mode", "A")
        spec.setdefault("hashseed", 0)
        spec["repo"] = repo
        spec["cover_files"] = anchors.files_of(prop)
    max_par = int(os.environ.get("VERIF_JOBS", "16" if tier == "thorough" else "12"))
    timeout_s = getattr(mod, "TIMEOUT", {"quick": 600, "thorough": 3600})[tier]
    done = run_children(prop, specs, repo, srchash, rundir, max_par, timeout_s)

    # ---- merge ------------------------------------------------------------------------------
    counters, digests, samples, violations, errors = {}, set(), [], [], []
    sets = {}
    gen_errors = []
    shard_info = []
    evaluations = 0
    violations_total = 0
    watchdogs = 0
    crashes = []
    modes, hashseeds = set(), set()
    for spec, res, status in done:
        modes.add(spec["mode"])
        hashseeds.add(spec["hashseed"])
        if res is None:
            shard = spec["shard"]
            inflight = None
            if os.path.exists(spec["inflight"]):
                try:
                    with open(spec["inflight"]) as f:
                        inflight = json.load(f)
                except (OSError, ValueError):
                    inflight = None
            info = {"shard": shard, "status": status, "inflight": inflight,
                    "stderr": tail(os.path.join(rundir, f"err{shard}.txt")),
                    "fault": tail(os.path.join(rundir, f"out{shard}.json.fault")), "mode": spec["mode"],
                    "hashseed": spec["hashseed"]}
            if status == "watchdog":
                watchdogs += 1
            crashes.append(info)
            continue
        evaluations += res["evaluations"]
        shard_info.append({"shard": spec["shard"], "mode": spec["mode"], "hashseed": spec["hashseed"],
                           "evaluations": res["evaluations"], "wall_s": res["wall_s"]})
        violations_total += res["violations_total"]
        for k, v in res["counters"].items():
            if k.startswith("max:"):
                counters[k] = max(counters.get(k, v), v)
            else:
                counters[k] = counters.get(k, 0) + v
        digests.update(res["digests"])
        for k, v in res.get("sets", {}).items():
            sets.setdefault(k, set()).update(tuple(x) if isinstance(x, list) else x for x in v)
        for s in res["samples"]:
            if len(samples) < 8:
                samples.append(s)
        violations.extend(res["violations"])
        errors.extend(res["errors"])
        gen_errors.extend(res.get("gen_errors", []))

    # ---- crashes: a child that died while a case was in flight --------------------------------
    broken = []
    inconclusive = []
    for c in crashes:
        if c["status"] == "watchdog":
            inconclusive.append(f"watchdog fired on shard {c['shard']} (case in flight: "
                                f"{json.dumps(c['inflight'], default=str)[:300]})")
        elif c["inflight"] is not None and getattr(mod, "CRASH_IS_VIOLATION", False):
            violations.append({"signature": "process-crash", "what": f"child process died ({c['status']}) while "
                               "this case was in flight: " + (c["fault"] or c["stderr"])[-600:],
                               "case": c["inflight"], "observed": c["status"], "expected": "a result",
                               "mode": c["mode"], "hashseed": str(c["hashseed"])})
            violations_total += 1
        else:
            broken.append(f"shard {c['shard']} failed ({c['status']}): {(c['stderr'] or c['fault'])[-1200:]}")
    if errors:
        broken.append(f"{len(errors)} harness error(s); first: {errors[0][-1500:]}")
    nb_gen = counters.get("generator_errors", 0)
    if nb_gen > max(5, evaluations // 5000):
        broken.append(f"{nb_gen} workload generator errors; first: {gen_errors[0][-1200:] if gen_errors else ''}")

    # ---- classify violations against the known findings ---------------------------------------
    known = [k for k in load_known() if k.get("property") == prop]
    open_sigs = {k["signature"]: k for k in known if k.get("status") == "open"}
    # witnesses of this run only: /verif/replays/<prop>/ for the tree under /repo, a directory under .work for any other
    # tree (scratch copies used to try seeded changes must not leave witnesses beside those of /repo)
    replay_root = os.path.join(VERIF, "replays") if repo == "/repo" else os.path.join(WORK, "replays-" + srchash)
    shutil.rmtree(os.path.join(replay_root, prop), ignore_errors=True)
    os.makedirs(os.path.join(replay_root, prop), exist_ok=True)
    new_violations, known_hits = [], {}
    for v in violations:
        if v["signature"] in open_sigs:
            known_hits.setdefault(v["signature"], []).append(v)
        else:
            new_violations.append(v)
    lines = []
    for sig, hits in known_hits.items():
        lines.append(f"KNOWN-FINDING: property={prop} {open_sigs[sig].get('what', sig)} "
                     f"[signature={sig}; {len(hits)} witness(es) this run]")
    seen = set()
    printed = 0
    per_sig = {}
    for v in new_violations:
        body = json.dumps({"property": prop, **v}, sort_keys=True, default=str)
        h = hashlib.sha1(body.encode()).hexdigest()[:12]
        if h in seen:
            continue
        seen.add(h)
        path = os.path.join(replay_root, prop, f"{h}.json")
        with open(path, "w") as f:
            json.dump({"property": prop, **v}, f, indent=1, default=str)
        per_sig[v["signature"]] = per_sig.get(v["signature"], 0) + 1
        if printed < 20 and per_sig[v["signature"]] <= 3:
            lines.append(f"VIOLATION property={prop} replay={path}")
            lines.append(f"  signature={v['signature']} :: {v['what'][:400]}")
            printed += 1

    # ---- reach conditions ---------------------------------------------------------------------
    info = {"repo": repo, "tier": tier, "sets": sets, "modes": modes}
    reach = mod.reach(counters, tier, info) if hasattr(mod, "reach") else []
    reach += anchors.file_reach(prop, info)
    for r in reach:
        r.setdefault("gating", True)
        if not r["ok"] and r["gating"]:
            inconclusive.append(f"reach condition not met: {r['name']} observed={r['observed']} "
                                f"required={r['required']}")
    if evaluations == 0 and not broken:
        broken.append("the workload produced no case")

    # ---- evidence -----------------------------------------------------------------------------
    wall = round(time.time() - t0, 2)
    nontrivial = len(digests)
    sig_hist = {}
    for v in violations:
        sig_hist[v["signature"]] = sig_hist.get(v["signature"], 0) + 1
    coverage = {
        "evaluations": evaluations,
        "distinct_nontrivial": nontrivial,
        "rule": getattr(mod, "RULE", ""),
        "samples": samples[:6] + [{"witness": v} for v in violations[:3]],
        "exhaustive": bool(counters.get("exhaustive_spaces", 0)) and getattr(mod, "EXHAUSTIVE", False),
        "exhaustive_subspaces": getattr(mod, "EXHAUSTIVE_NOTE", "none"),
        "counters": {k: counters[k] for k in sorted(counters)},
        "sets": {k: (sorted(v) if len(v) <= 400 else {"size": len(v)}) for k, v in sets.items()},
        "reach_conditions": reach,
        "modes": sorted(modes),
        "hash_seeds": sorted(hashseeds),
        "shards": len(specs),
        "shard_info": sorted(shard_info, key=lambda x: x["shard"]),
        "watchdog_firings": watchdogs,
        "violations_by_signature": sig_hist,
        "known_findings_matched": sorted(known_hits),
        "source_hash": srchash,
        "repo": repo,
    }
    verdict = "held"
    if new_violations:
        verdict = "violated"
    elif broken:
        verdict = "broken"
    elif inconclusive:
        verdict = "inconclusive"
    coverage["verdict"] = verdict
    evidence = {
        "property_id": prop, "tier": tier, "seed": seed, "level": "exploration",
        "coverage": coverage,
        "assumptions": getattr(mod, "ASSUMPTIONS", []),
        "wall_s": wall,
        "violations": len(new_violations),
    }
    if os.environ.get("VERIF_NO_EVIDENCE") != "1":
        os.makedirs(os.path.join(VERIF, "evidence"), exist_ok=True)
        with open(os.path.join(VERIF, "evidence", f"{prop}.json"), "w") as f:
            json.dump(evidence, f, indent=1, default=str)
    if os.environ.get("VERIF_LINES_OUT"):
        # tools/blindspots.py: every executed line of the library, per file
        with open(os.path.join(os.environ["VERIF_LINES_OUT"], f"{prop}.json"), "w") as f:
            json.dump({k[6:]: sorted(v) for k, v in sets.items() if k.startswith("lines:")}, f)

    # ---- report -------------------------------------------------------------------------------
    for ln in lines:
        print(ln)
    if nb_gen:
        print(f"NOTE property={prop} {nb_gen} case(s) lost to a workload generator error "
              f"({(gen_errors[0].strip().splitlines() or ['?'])[-1][:160] if gen_errors else '?'})")
    for msg in broken:
        print(f"BROKEN-CHECK: property={prop} {msg}")
    for msg in inconclusive:
        print(f"INCONCLUSIVE property={prop} reason={msg}")
    keys = getattr(mod, "SUMMARY_KEYS", [])
    summ = " ".join(f"{k}={counters.get(k, 0)}" for k in keys)
    print(f"[{prop} {tier} seed={seed}] verdict={verdict} evaluations={evaluations} distinct_nontrivial={nontrivial} "
          f"violations={len(new_violations)} known={sum(len(h) for h in known_hits.values())} "
          f"modes={''.join(sorted(modes))} wall={wall}s {summ}")
    if not os.environ.get("VERIF_KEEP_WORK"):
        shutil.rmtree(rundir, ignore_errors=True)
    if new_violations:
        return 1
    if broken:
        return 3
    if inconclusive:
        return 2
    return 0


if __name__ == "__main__":
    sys.exit(main(sys.argv))
