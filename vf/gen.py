"""
Seeded workload generators (raw, JSON-able cases; see vf/ref.py for the representation).

Arithmetic rule: deciding workloads draw penalties from a dyadic grid, so that every sum the
library forms in binary64 is exact and can be compared with the rational oracle for equality.
"""
from vf import ref

DYADIC = [0.0, 0.25, 0.5, 0.75, 1.0, 1.5, 2.0, 3.0, 5.0, 8.0]
SCALES = [0.25, 0.5, 2.0, 3.0, 8.0]
# integer multipliers k for which fl(fl(1/k) * k) != 1: exact to apply, but reveal asymmetric float proportionality tests
ODD_SCALES = [7.0, 49.0, 98.0, 103.0, 107.0, 161.0, 187.0]
DECIMAL = [0.0, 0.1, 0.3, 0.7, 1.0, 1.1, 2.3]

PRESET_NAMES = list(ref.PRESETS)


# ---------------------------------------------------------------------------------------------
# schemes


def scale(scheme, k):
    return [[v * k for v in scheme[0]], [v * k for v in scheme[1]]]


def scheme_random(rng, grid=DYADIC, force_all_nonzero=False):
    """S3: random valid scheme, all 12 coordinates free under the validity constraints"""
    pos = [v for v in grid if v > 0]
    pick = (lambda: rng.choice(pos)) if force_all_nonzero else (lambda: rng.choice(grid))
    b3 = pick()
    b4 = rng.choice([v for v in grid if v >= b3] or [b3])
    if force_all_nonzero and b4 == 0:
        b4 = b3
    t01 = pick()
    t34 = pick()
    return [[0.0, rng.choice(pos), pick(), b3, b4, pick()], [t01, t01, 0.0, t34, t34, pick()]]


def scheme_preset(rng):
    return [list(v) for v in ref.PRESETS[rng.choice(PRESET_NAMES)]]


def scheme_preset_multiple(rng):
    return scale(scheme_preset(rng), rng.choice(SCALES + ODD_SCALES))


def scheme_perturbed(rng):
    """S4: a preset with one free entry perturbed (still valid)"""
    s = scheme_preset(rng)
    for _ in range(20):
        which = rng.choice(["b1", "b2", "b3", "b4", "b5", "t01", "t34", "t5"])
        v = rng.choice(DYADIC)
        t = [list(s[0]), list(s[1])]
        if which == "b1":
            t[0][1] = v
        elif which == "b2":
            t[0][2] = v
        elif which == "b3":
            t[0][3] = v
        elif which == "b4":
            t[0][4] = v
        elif which == "b5":
            t[0][5] = v
        elif which == "t01":
            t[1][0] = t[1][1] = v
        elif which == "t34":
            t[1][3] = t[1][4] = v
        else:
            t[1][5] = v
        if ref.scheme_valid(t[0], t[1]) and t != s:
            return t
    return s


def scheme_lookalike(rng):
    """S5: B of a preset (scaled by k) with T of the same preset scaled by k' != k, or with the T
    of another preset: proportional on one vector only"""
    name = rng.choice(PRESET_NAMES)
    p = ref.PRESETS[name]
    k = rng.choice([1.0] + SCALES)
    if rng.random() < 0.5:
        k2 = rng.choice([x for x in [1.0] + SCALES if x != k])
        t = [v * k2 for v in p[1]]
    else:
        other = rng.choice([x for x in PRESET_NAMES if x != name])
        t = [v * k for v in ref.PRESETS[other][1]]
    if rng.random() < 0.5:
        return [[v * k for v in p[0]], t]
    # same T, different B
    other = rng.choice([x for x in PRESET_NAMES if x != name])
    return [[v * k for v in ref.PRESETS[other][0]], [v * k for v in p[1]]]


def scheme_degenerate(rng):
    """S6: degenerate but valid"""
    b = rng.choice([0.25, 1.0, 3.0])
    return rng.choice([
        [[0.0, b, 0.0, 0.0, 0.0, 0.0], [0.0, 0.0, 0.0, 0.0, 0.0, 0.0]],
        [[0.0, b, b, 1.0, 1.0, 0.0], [b, b, 0.0, 0.0, 0.0, 0.0]],
        [[0.0, b, 0.5, 0.0, 8.0, 0.0], [0.5, 0.5, 0.0, 2.0, 2.0, 3.0]],
        [[0.0, b, 2.0, 2.0, 2.0, 2.0], [1.0, 1.0, 0.0, 1.0, 1.0, 0.0]],
        [[0.0, b, 0.0, 0.0, 0.0, 5.0], [0.0, 0.0, 0.0, 0.0, 0.0, 0.0]],
    ])


def scheme_free_ties(rng):
    """S9: creating and breaking a tie costs nothing (B[2] = T[0] = T[1] = 0): many rankings at distance 0"""
    b = rng.choice([0.5, 1.0, 2.0])
    b3 = rng.choice([0.0, 0.0, 1.0])
    t34 = rng.choice([0.0, 1.0])
    return [[0.0, b, 0.0, b3, b3 + rng.choice([0.0, 1.0]), rng.choice([0.0, 1.0])],
            [0.0, 0.0, 0.0, t34, t34, rng.choice([0.0, 0.5])]]


def scheme_near_tie(rng):
    """S10: a preset family whose tie cost p is a hair above a round value (p * (1 + 2^-18), exactly representable):
    rankings whose scores differ by a relative 1e-6..1e-5 -- equal for a sloppy float comparison, different in fact"""
    eps = 2.0 ** -rng.choice([16, 18, 20])
    p = rng.choice([0.5, 1.0]) * (1.0 + eps)
    fam = rng.choice(["unifying", "pseudodistance", "induced"])
    if fam == "unifying":
        return [[0., 1., p, 0., 1., p], [p, p, 0., p, p, 0.]]
    if fam == "pseudodistance":
        return [[0., 1., p, 0., 1., 0.], [p, p, 0., p, p, 0.]]
    return [[0., 1., p, 0., 0., 0.], [p, p, 0., 0., 0., 0.]]


def scheme_ratio_band(rng):
    """S11: tie cost t = r * inversion cost b with r on both sides of the critical ratios 1/3, 1/2, 1 (the no-tie
    pruning of the exact models and every 'is a tie cheaper' decision depend on these bands)"""
    r = rng.choice([0.25, 0.375, 0.4375, 0.5, 0.625, 0.75, 1.0, 1.5])
    b = rng.choice([1.0, 2.0, 4.0])
    t = r * b
    fam = rng.choice(["unifying", "pseudodistance", "induced", "free"])
    if fam == "unifying":
        return [[0., b, t, 0., b, t], [t, t, 0., t, t, 0.]]
    if fam == "pseudodistance":
        return [[0., b, t, 0., b, 0.], [t, t, 0., t, t, 0.]]
    if fam == "induced":
        return [[0., b, t, 0., 0., 0.], [t, t, 0., 0., 0., 0.]]
    b3 = rng.choice([0.0, 0.5])
    t34 = rng.choice([0.0, t, 0.5])
    return [[0., b, t, b3, b3 + rng.choice([0.0, 1.0]), rng.choice([0.0, t, 1.0])], [t, t, 0., t34, t34, rng.choice([0.0, t])]]


def scheme_cheap_ties(rng):
    """tie cost well below half the inversion cost, unranked elements cheap or free: the all-tied ranking is often the
    best one (induced / unifying families)"""
    r = rng.choice([0.25, 0.375, 0.4375])
    b = rng.choice([1.0, 2.0])
    t = r * b
    if rng.random() < 0.6:
        return [[0., b, t, 0., 0., 0.], [t, t, 0., 0., 0., 0.]]
    return [[0., b, t, 0., b, t], [t, t, 0., t, t, 0.]]


def scheme_unranked_free(rng):
    """pairs with an unranked element cost nothing (induced-measure like): B[3..5] = T[3..5] = 0"""
    b = rng.choice([1.0, 2.0, 3.0])
    t = rng.choice([0.25, 0.5, 1.0, 1.0, 2.0]) * (b if rng.random() < 0.5 else 1.0)
    return [[0., b, rng.choice([t, t, 0.5 * b, b]), 0., 0., 0.], [t, t, 0., 0., 0., 0.]]


def scheme_extreme_ratio(rng):
    """S12: tie costs ten to twelve orders of magnitude below the inversion cost (p = 2^-40, exactly representable; use
    with n <= 8, m <= 8 so that every sum stays exact): scores that differ by a relative 1e-12"""
    p = 2.0 ** -rng.choice([34, 40])
    fam = rng.choice(["unifying", "pseudodistance", "induced", "one-plus"])
    if fam == "unifying":
        return [[0., 1., p, 0., 1., p], [p, p, 0., p, p, 0.]]
    if fam == "pseudodistance":
        return [[0., 1., p, 0., 1., 0.], [p, p, 0., p, p, 0.]]
    if fam == "induced":
        return [[0., 1., p, 0., 0., 0.], [p, p, 0., 0., 0., 0.]]
    q = 1.0 + p
    return [[0., 1., q, 0., 1., q], [q, q, 0., q, q, 0.]]


def scheme_big_t5(rng):
    """tying two elements that are both unranked is expensive (T[5] > B[5]), everything else moderate"""
    b = rng.choice([1.0, 2.0])
    t = rng.choice([0.5, 1.0]) * b
    t5 = rng.choice([2.0, 3.0, 5.0, 8.0])
    b5 = rng.choice([0.0, 0.0, 0.5])
    b3 = rng.choice([0.0, 0.5])
    t34 = rng.choice([0.0, 0.5, 1.0])
    return [[0., b, rng.choice([t, b]), b3, b3 + rng.choice([0.0, 1.0]), b5], [t, t, 0., t34, t34, t5]]


def scheme_unranked_pairs(rng):
    """S15: the two penalties for a pair of elements that are both unranked differ and are of the size of the other
    penalties (B[5] = 0 < T[5], B[5] > T[5] = 0, or both non-zero and different); the rest is a usual scheme with a tie
    cost of 1/2 or 1 times the inversion cost"""
    b = rng.choice([1.0, 1.0, 2.0])
    t = rng.choice([0.5, 1.0]) * b
    kind = rng.choice(["t5", "t5", "b5", "both"])
    if kind == "t5":
        b5, t5 = 0.0, rng.choice([0.5, 1.0, 1.0, 2.0]) * b
    elif kind == "b5":
        b5, t5 = rng.choice([0.5, 1.0, 2.0]) * b, 0.0
    else:
        b5, t5 = rng.choice([(0.5, 1.0), (1.0, 0.5), (1.0, 2.0), (0.25, 1.0)])
        b5, t5 = b5 * b, t5 * b
    b3 = rng.choice([0.0, 0.0, 0.5 * b])
    b4 = b3 + rng.choice([0.0, b, b])
    t34 = rng.choice([0.0, t, t, b])
    return [[0., b, rng.choice([t, b, b]), b3, b4, b5], [t, t, 0., t34, t34, t5]]


def scheme_magnitudes(rng):
    """S14: penalties of unusual magnitude -- a preset scaled by 2^-30 (every cost difference far below 1e-8), or an
    inversion cost 2^20 times the other penalties; all exactly representable"""
    base = [list(v) for v in ref.PRESETS[rng.choice(["unifying", "pseudodistance", "induced", "unifying_half"])]]
    if rng.random() < 0.5:
        k = 2.0 ** -rng.choice([30, 34])
        return scale(base, k)
    big = 2.0 ** rng.choice([18, 20])
    b = list(base[0])
    b[1] = big
    if rng.random() < 0.5:
        b[2] = big
    return [b, list(base[1])]


def scheme_big_ratio(rng):
    """S16: the second half of S14 only -- an inversion cost 2^18 .. 2^20 times the other penalties (costs of the order of
    1e6 that differ by one unit: relative tolerances of 1e-5 .. 1e-6 confuse them, while every sum stays exact and an ILP
    solver's absolute tolerances are far below one unit)"""
    base = [list(v) for v in ref.PRESETS[rng.choice(["unifying", "pseudodistance", "induced", "unifying_half"])]]
    big = 2.0 ** rng.choice([18, 20])
    b = list(base[0])
    b[1] = big
    if rng.random() < 0.5:
        b[2] = big
    return [b, list(base[1])]


def scheme_small_unranked(rng):
    """S17: the penalties of pairs that a ranking really compares (B[1], B[2], T[0], T[1]) are 2^18 .. 2^20 times the
    penalties of pairs with an unranked element: two placements whose costs differ only through who ranks whom are equal up
    to a relative 1e-6 and different in fact (all sums exact)"""
    big = 2.0 ** rng.choice([18, 20])
    t = rng.choice([0.5, 1.0]) * big
    b3 = rng.choice([0.0, 0.0, 1.0])
    b4 = b3 + rng.choice([1.0, 1.0, 2.0])
    b5 = rng.choice([0.0, 1.0])
    t34 = rng.choice([0.0, 1.0, 2.0])
    t5 = rng.choice([0.0, 1.0])
    return [[0., big, rng.choice([t, big]), b3, b4, b5], [t, t, 0., t34, t34, t5]]


def scheme_decimal(rng):
    return scheme_random(rng, grid=DECIMAL)


def scheme_threshold(rng):
    """S8: penalties k * 2^-12 .. k * 2^-8 (around BioConsert's 0.001 threshold)"""
    unit = 2.0 ** -rng.choice([12, 11, 10, 9, 8])
    s = scheme_random(rng, grid=[0.0, 1.0, 2.0, 3.0])
    return scale(s, unit)


def scheme_sparse_unranked(rng):
    """S18: each of the five penalties that involve an unranked element (B[3], B[4], B[5], T[3] = T[4], T[5]) is zero or not
    independently of the others (B[3] <= B[4] kept): shortcuts guarded by 'these penalties are zero' meet every pattern"""
    b = rng.choice([1.0, 1.0, 2.0])
    t = rng.choice([0.5, 1.0, 1.0, 0.25]) * b
    t0 = rng.choice([t, t, 0.5 * b, b])
    val = lambda: rng.choice([0.5, 1.0, 1.0, 2.0]) * b
    b3 = val() if rng.random() < 0.35 else 0.0
    b4 = max(b3, val()) if (b3 > 0 or rng.random() < 0.5) else 0.0
    b5 = val() if rng.random() < 0.5 else 0.0
    t34 = val() if rng.random() < 0.4 else 0.0
    t5 = val() if rng.random() < 0.5 else 0.0
    return [[0.0, b, t, b3, b4, b5], [t0, t0, 0.0, t34, t34, t5]]


SCHEME_CLASSES = {
    "S1": scheme_preset, "S2": scheme_preset_multiple, "S3": scheme_random, "S4": scheme_perturbed,
    "S5": scheme_lookalike, "S6": scheme_degenerate, "S7": scheme_decimal, "S8": scheme_threshold,
    "S9": scheme_free_ties, "S10": scheme_near_tie, "S11": scheme_ratio_band, "S12": scheme_extreme_ratio,
    "S13": scheme_big_t5, "S14": scheme_magnitudes, "S15": scheme_unranked_pairs, "S16": scheme_big_ratio, "S17": scheme_small_unranked,
    "S18": scheme_sparse_unranked,
}


def scheme(rng, classes="S1 S2 S3 S3 S4 S6"):
    cls = rng.choice(classes.split())
    if cls == "S3" and rng.random() < 0.4:
        return cls, scheme_random(rng, force_all_nonzero=True)
    return cls, SCHEME_CLASSES[cls](rng)


def is_dyadic(s):
    """every penalty is k/2^24 with k < 2^40: sums over the explored sizes (n <= 60, m <= 200) are exact floats"""
    for vec in s:
        for v in vec:
            f = ref.fr(v)
            if (1 << 24) % f.denominator != 0 or f.numerator >= (1 << 40):
                # extreme-ratio schemes (S12): grain 2^-40 with penalties <= 2 stay exact for n <= 8, m <= 8
                if (1 << 40) % f.denominator != 0 or f > 2:
                    return False
    return True


# ---------------------------------------------------------------------------------------------
# elements


WORDS = ["a", "b", "c", "d", "e", "f", "g", "h", "bob", "eve", "x1", "y2", "10a", "A", "B", "zz", "é", "α", "k_9",
         "p q", "m-n", "0x", "007a", "w.w", "u/v", "s;t", "12", "3", "04", "n!", "=", "~t"]


def element_names(rng, n, kind=None):
    """n distinct element names.  kinds: int (0..n-1 shifted), bigint, str, intlike (digit
    strings), mixed_str (words, some digit strings together with words)"""
    if kind is None:
        kind = rng.choice(["int", "int", "bigint", "str", "str", "intlike", "mixed_str", "digits_plus_word", "negint",
                           "hugeint", "comma_space", "almost_int"])
    if kind == "int":
        base = rng.choice([0, 0, 1, 5])
        names = list(range(base, base + n))
    elif kind == "bigint":
        names = rng.sample(range(0, max(200, 2 * n)), n)
    elif kind == "str":
        pool = [w for w in WORDS if not w.isdigit()]
        names = rng.sample(pool, n) if n <= len(pool) else [f"e{i}" for i in range(n)]
    elif kind == "intlike":
        names = [str(v) for v in rng.sample(range(0, max(60, 2 * n)), n)]
    elif kind == "comma_space":
        # names that contain the separators used when a bucket is printed: different rankings can print identically
        pool = ["x", "x, x", "x, x, x", "a", "b", "a, b", "b, a", "c}, {d", "c", "d"]
        names = rng.sample(pool, min(n, len(pool)))
    elif kind == "almost_int":
        # strings that look like integers to one test and not to another: a sign, an underscore, a blank, a leading zero,
        # a superscript digit (str.isdigit() is True, int() fails), digits of other scripts (int() reads them), hex / float
        # notations.  The int values of the convertible ones are pairwise distinct.  A dataset holds ints only when EVERY name
        # is a string of decimal digits; otherwise every name stays the string it is
        pool = ["+2", "-3", "1_0", "3 ", " 4", "07", "\u00b2", "\u0665", "\uff11\uff12", "6", "8", "0x1", "1e1", "9", "11"]
        names = rng.sample(pool, min(n, len(pool)))
        if rng.random() < 0.35:
            # only strings of decimal digits (of any script): the dataset becomes integer-typed
            dec = [x for x in pool if x.isdecimal()]
            names = rng.sample(dec, min(n, len(dec)))
        elif n >= 3 and rng.random() < 0.45:
            # twins: two DIFFERENT names with the same integer reading ("07" and "7", "\uff11\uff12" and "12") next to a
            # name that is not integer-like: the dataset holds strings, and whatever re-reads a part of it as integers
            # (a projection on a component, a comparison by value) merges the twins
            a, b = rng.choice([("07", "7"), ("007", "7"), ("\uff11\uff12", "12"), ("\u0665", "5"), ("00", "0")])
            rest = [x for x in pool if x not in (a, b) and not x.isdecimal()]
            others = rng.sample(["8", "9", "11", "6"], min(max(0, n - 3), 4))
            names = [a, b, rng.choice(rest + ["w", "a"])] + others
            names = names[:max(3, n)]
    elif kind == "negint":
        names = rng.sample(range(-8 - n, 12 + n), n)
    elif kind == "hugeint":
        # around 2^31, 2^61 - 1 (CPython's hash modulus) and 2^63: ids that do not fit int32 / collide after hashing
        pool = [2 ** 31 - 1, 2 ** 31, 2 ** 31 + 1, 2 ** 61 - 2, 2 ** 61 - 1, 2 ** 61, 2 ** 63, 2 ** 63 + 5, 10 ** 12, 7, 0, 1]
        names = rng.sample(pool, min(n, len(pool)))
    elif kind == "int_and_str":
        # real ints next to words (and sometimes digit strings): the dataset must end up holding strings only
        names = list(rng.sample(range(0, max(60, 2 * n)), n))
        k = rng.randrange(n)
        names[k] = rng.choice(["w", "a", "x1"])
        if n >= 3 and rng.random() < 0.5:
            j = (k + 1) % n
            names[j] = str(names[j])
    elif kind == "digits_plus_word":
        # digit strings and a single word: the dataset holds strings, but a sub-problem made of digit strings only
        # is integer-like on its own
        names = [str(v) for v in rng.sample(range(0, max(60, 2 * n)), n)]
        names[rng.randrange(n)] = rng.choice(["w", "a", "x1"])
    else:
        pool = list(WORDS)
        names = rng.sample(pool, n) if n <= len(pool) else [f"e{i}" for i in range(n)]
        if all(ref.int_like(x) for x in names):
            names[0] = "w"
    rng.shuffle(names)
    return kind, names


# ---------------------------------------------------------------------------------------------
# rankings / datasets


def ranking_over(rng, elems, tie_p=0.3):
    """random ranking with ties over exactly elems"""
    elems = list(elems)
    rng.shuffle(elems)
    r = []
    for e in elems:
        if r and rng.random() < tie_p:
            r[-1].append(e)
        else:
            r.append([e])
    return r


def perturb(rng, ranking, nb_moves):
    """a few random single-element moves"""
    r = [list(b) for b in ranking]
    for _ in range(nb_moves):
        elems = [e for b in r for e in b]
        if not elems:
            break
        e = rng.choice(elems)
        r = [[x for x in b if x != e] for b in r]
        r = [b for b in r if b]
        if r and rng.random() < 0.4:
            rng.choice(r).append(e)
        else:
            r.insert(rng.randint(0, len(r)), [e])
    return r


def block_dataset(rng, n, sizes=(1, 2, 3, 3, 4, 4, 5), mmax=7):
    """(dataset, blocks): n elements (beyond the reach of the subset DP) in ordered blocks.  Every ranking lists the blocks
    it contains in block order, so that 'earlier block before later block' is a cheapest placement under most schemes
    (ref.BlockOptimum checks it on the cost table; the generator only aims at it).  Inside a block: rotations of one order
    (cyclic majorities), independent rankings with ties, or perturbations of one order.  A first short ranking with one
    member of each block makes the library's element ids interleave across blocks (ids >= 10 inside every component).
    A minority of the voters ties or swaps two elements across a block border."""
    kind = rng.choice(["int", "int", "bigint", "str", "intlike", "negint", "digits_plus_word", "mixed_str"])
    _, names = element_names(rng, n, kind)
    blocks, at = [], 0
    while at < n:
        sz = min(n - at, rng.choice(sizes))
        blocks.append(names[at:at + sz])
        at += sz
    style = [rng.choice(["rot", "rot", "free", "near"]) for _ in blocks]
    bases = [ranking_over(rng, b, rng.choice([0.0, 0.0, 0.3])) for b in blocks]
    m = rng.randint(3, max(3, mmax))
    skip = rng.choice([0.0, 0.0, 0.15, 0.3])
    noise = rng.choice([0.0, 0.0, 0.1])
    ds = []
    if rng.random() < 0.7:
        ds.append([[rng.choice(b)] for b in blocks])
    for i in range(m):
        r = []
        borders = []
        for bi, blk in enumerate(blocks):
            if len(blocks) > 1 and rng.random() < skip:
                continue
            if style[bi] == "rot":
                kk = i % len(blk)
                sub = [[e] for e in blk[kk:] + blk[:kk]]
                if len(sub) > 1 and rng.random() < 0.15:
                    j = rng.randrange(len(sub) - 1)
                    sub[j] = sub[j] + sub.pop(j + 1)
            elif style[bi] == "free":
                sub = ranking_over(rng, blk, rng.choice([0.0, 0.3, 0.6]))
            else:
                sub = perturb(rng, bases[bi], rng.choice([0, 1, 1, 2]))
            if r:
                borders.append(len(r))
            r.extend(sub)
        if borders and rng.random() < noise:
            j = rng.choice(borders)
            if rng.random() < 0.5:
                r[j - 1], r[j] = r[j], r[j - 1]
            else:
                r[j - 1] = r[j - 1] + r.pop(j)
        ds.append(r)
    seen = set(universe_of(ds))
    missing = [e for e in names if e not in seen]
    if missing:
        # every element must appear: one more voter ranks the blocks of the missing elements, in block order
        ds.append([[e for e in b if e in missing] for b in blocks if any(e in missing for e in b)])
    return ds, blocks


def trap_dataset(rng, tail=None, names=None, order=None, head=None, sk=None):
    """(dataset, index of the good ranking): a local-search trap.  The majority ranking r2 (k copies) and one dissenting
    ranking r1 share a chain head / tail and differ by the order of two adjacent tied buckets B1, B2 of s elements each
    (one or several such pairs).  With 2s >= k + 1 no single-element move improves r1 (taking one element of B2 behind B1
    gains s(k-1) on the pairs with B1 and loses (s-1)(k+1) on the pairs with its former bucket mates, under schemes where
    ties and inversions cost the same), and the search from the all-tied ranking usually stalls as well: r2 is then the only
    departure that leads to the score of r2 itself.  A BioConsert that loses one of its distinct input rankings as a
    departure (de-duplication by a lossy key, a skipped index, ...) returns something worse than an input ranking.
    tail: number of singleton buckets after the trap (1000 makes the printed form of a numpy row abbreviate)"""
    s = rng.choice([3, 3, 4])
    k = rng.choice([2, 2, 3]) if s == 3 else rng.choice([2, 3, 4])
    traps = rng.choice([1, 1, 2, 3])
    drawn_head = rng.choice([0, 1, 3, 3])
    head = drawn_head if head is None else head
    if sk is not None:
        s, k = sk
    if tail is None:
        tail = rng.choice([0, 1, 3])
    n = head + 2 * s * traps + tail
    if names is None:
        names = list(range(n))
        if n <= 40 and rng.random() < 0.5:
            _, names = element_names(rng, n, rng.choice(["int", "bigint", "str", "negint"]))
    names = list(names)
    at = 0
    r1, r2 = [], []
    for _ in range(head):
        r1.append([names[at]])
        r2.append([names[at]])
        at += 1
    for _ in range(traps):
        b1 = names[at:at + s]
        b2 = names[at + s:at + 2 * s]
        at += 2 * s
        r1 += [list(b2), list(b1)]
        r2 += [list(b1), list(b2)]
    for _ in range(tail):
        r1.append([names[at]])
        r2.append([names[at]])
        at += 1
    drawn = rng.choice(["dissenter-first", "dissenter-first", "dissenter-last", "dissenter-middle"])
    order = order or drawn
    copies = [[list(b) for b in r2] for _ in range(k)]
    if order == "dissenter-first":
        ds = [r1] + copies
    elif order == "dissenter-last":
        ds = copies + [r1]
    else:
        ds = copies[:1] + [r1] + copies[1:]
    return ds, {"s": s, "k": k, "traps": traps, "order": order, "good_score_unifying": s * s * traps}


# sizes at which implementations typically switch strategy or a narrow type overflows: block sizes of vectorised code,
# powers of two (int8 / uint8 / int16 limits show up as positions or ids), numpy's print threshold, round thresholds
THRESHOLD_SIZES = [63, 64, 65, 100, 127, 128, 129, 200, 255, 256, 257, 300, 499, 500, 501, 511, 512, 513, 600, 601, 999, 1000,
                   1001, 1023, 1024, 1025]


def large_dataset(rng, n, m=None, style=None, names=None):
    """(dataset, base order): n elements, a few rankings that are cheap to generate and structured the way large real
    datasets are: perturbations of one order (adjacent swaps, local ties), identical rankings, groups of tied neighbours,
    independent permutations; optionally incomplete (a suffix or a random tenth of the elements missing, an empty ranking)"""
    base = list(names) if names is not None else list(range(n))
    if names is None and rng.random() < 0.5:
        rng.shuffle(base)
    style = style or rng.choice(["near", "near", "near", "identical", "groups", "random", "near-incomplete", "near-incomplete",
                                 "mostly-tied-pairs"])
    m = m or rng.choice([1, 2, 3, 3, 4, 5])
    ds = []
    if style == "mostly-tied-pairs":
        # one order; a third of the consecutive pairs are tied in every ranking but one or two, where they are ordered: mean
        # positions that differ by 1/m or 2/m on values of the order of n (relative differences far below 1e-5 when n * m
        # is large, and real)
        pairs = {i for i in range(0, n - 1, 2) if rng.random() < 0.33}
        untie = {i: set(rng.sample(range(m), min(m, rng.choice([1, 1, 2])))) for i in pairs}
        for j in range(m):
            r, i = [], 0
            while i < n:
                if i in pairs and j not in untie[i]:
                    r.append([base[i], base[i + 1]])
                    i += 2
                elif i in pairs:
                    r.extend([[base[i]], [base[i + 1]]] if rng.random() < 0.7 else [[base[i + 1]], [base[i]]])
                    i += 2
                else:
                    r.append([base[i]])
                    i += 1
            ds.append(r)
        return ds, base
    for _ in range(m):
        if style == "random":
            r = list(base)
            rng.shuffle(r)
            ds.append([[e] for e in r])
            continue
        order = list(base)
        if style != "identical":
            for _ in range(rng.choice([0, 1, 3, 8, n // 20 + 1])):
                i = rng.randrange(n - 1)
                order[i], order[i + 1] = order[i + 1], order[i]
        r = []
        if style == "groups":
            at = 0
            g = rng.choice([2, 3, 8, 16])
            while at < n:
                sz = rng.randint(1, g)
                r.append(order[at:at + sz])
                at += sz
        else:
            tie_p = rng.choice([0.0, 0.0, 0.02, 0.1])
            for e in order:
                if r and rng.random() < tie_p:
                    r[-1].append(e)
                else:
                    r.append([e])
        if style == "near-incomplete":
            how = rng.choice(["suffix", "tenth", "suffix"])
            if how == "suffix":
                cut = rng.randint(n // 2, n - 1)
                gone = set(order[cut:])
            else:
                gone = {e for e in order if rng.random() < 0.1}
            r = [[e for e in b if e not in gone] for b in r]
            r = [b for b in r if b]
        ds.append(r)
    if style == "near-incomplete":
        seen = set(universe_of(ds))
        missing = [e for e in base if e not in seen]
        if missing:
            ds.append([[e] for e in missing])
        if rng.random() < 0.3:
            ds.insert(rng.randrange(len(ds) + 1), [])
    return ds, base


def large_candidate(rng, base, style=None):
    """a complete candidate over `base` (the order most rankings of large_dataset follow)"""
    n = len(base)
    style = style or rng.choice(["groups", "groups", "one-bucket", "identity", "near", "reverse", "random", "two-buckets"])
    if style == "one-bucket":
        return style, [list(base)]
    if style == "two-buckets":
        cut = rng.randint(1, n - 1)
        return style, [list(base[:cut]), list(base[cut:])]
    order = list(base)
    if style == "reverse":
        order.reverse()
    elif style == "random":
        rng.shuffle(order)
    elif style == "near":
        for _ in range(rng.choice([1, 3, 8])):
            i = rng.randrange(n - 1)
            order[i], order[i + 1] = order[i + 1], order[i]
    if style == "groups":
        g = rng.choice([2, 4, 8, 8, 16, 32])
        out, at = [], rng.choice([0, 0, 1, 3])
        if at:
            out.append(order[:at])
        while at < n:
            out.append(order[at:at + g])
            at += g
        return style, out
    return style, [[e] for e in order]


def reshape_twins(rng):
    """(A, B): two different datasets of single-bucket rankings whose position matrices (0 = ranked, -1 = not ranked) have
    the same flattened content and different shapes (n x m and m x n, or n x m and (n*m/k) x k): anything that identifies a
    position matrix by its content without its shape confuses them.  Every element is ranked at least once."""
    for _ in range(50):
        n, m = rng.choice([(2, 3), (3, 2), (2, 4), (4, 2), (3, 4), (4, 3), (2, 6), (6, 2), (1, 3), (3, 1), (2, 5), (5, 2)])
        flat = [0 if rng.random() < rng.choice([0.5, 0.7, 1.0]) else -1 for _ in range(n * m)]
        shapes = [(n, m), (m, n)]
        ok = True
        out = []
        for (rows, cols), base in zip(shapes, (0, 100)):
            mat = [flat[i * cols:(i + 1) * cols] for i in range(rows)]
            if any(all(v == -1 for v in row) for row in mat):
                ok = False
                break
            ds = []
            for j in range(cols):
                members = [base + i for i in range(rows) if mat[i][j] == 0]
                ds.append([members] if members else [])
            # the first appearance of the elements must follow the row order: a first ranking that lists them all, when the
            # first column does, keeps ids = rows; otherwise ids are assigned by first appearance and the matrix differs
            seen = []
            for r in ds:
                for b in r:
                    for e in sorted(b):
                        if e not in seen:
                            seen.append(e)
            if seen != sorted(seen):
                ok = False
                break
            out.append(ds)
        if ok and n != m:
            return out[0], out[1]
    return [[[0, 1]]] * 3, [[[100, 101, 102]]] * 2


def universe_of(ds):
    return [e for r in ds for b in r for e in b]


OUTLIER = {"p": 0.05, "n_only_up_to": None}
# tuned on a seeded change (C06e) so that about 8 % of the (D23, B[5] = 0 < T[5]) cases sit on the critical side
D23 = {"sizes": [2, 3, 3, 4], "m": (5, 9), "p_tie": [0.2, 0.3, 0.35], "p_miss": [0.2, 0.3, 0.5]}


def dataset(rng, cls=None, n=None, m=None, names=None, nmax=7, mmax=6, classes=None, outlier=None):
    """returns (class name, dataset) -- the dataset always has at least one element.
    outlier: probability of a size outlier (more elements and / or more rankings than nmax / mmax: thresholds on sizes
    and counts -- >= 9 elements, >= 8 rankings, more elements than an internal bound -- are only met there); None = the
    module default OUTLIER["p"] when neither n nor m is imposed"""
    if cls is None:
        cls = rng.choice((classes or "D1 D2 D3 D3 D4 D6 D7 D8 D9 D10").split())
    p_out = OUTLIER["p"] if outlier is None else outlier
    if n is None and m is None and names is None and p_out and rng.random() < p_out:
        cap = OUTLIER["n_only_up_to"]
        if rng.random() < 0.6:
            nmax = min(cap, nmax + 3) if cap else rng.randint(nmax + 1, 2 * nmax + 4)
            n = nmax if cap else None
        if rng.random() < 0.6:
            mmax = rng.randint(mmax + 2, mmax + 8)
            m = mmax
    for _ in range(50):
        ds = _dataset(rng, cls, n, m, names, nmax, mmax)
        if ref.universe(ds):
            return cls, ds
    return cls, [[[0]]]


def _dataset(rng, cls, n, m, names, nmax, mmax):
    if n is None:
        n = rng.randint(2, nmax) if rng.random() < 0.93 else 1
    if m is None:
        m = rng.randint(1, mmax)
    if names is None:
        _, names = element_names(rng, n)
    names = list(names)[:n] if len(names) >= n else list(names)
    n = len(names)
    if cls == "D1":      # complete permutations
        return [ranking_over(rng, names, 0.0) for _ in range(m)]
    if cls == "D2":      # complete with ties
        tp = rng.choice([0.2, 0.4, 0.7])
        return [ranking_over(rng, names, tp) for _ in range(m)]
    if cls in ("D3", "D4"):   # incomplete with ties (D4: with empty rankings)
        miss = rng.choice([0.2, 0.4, 0.7])
        tp = rng.choice([0.0, 0.3, 0.6])
        ds = []
        for _ in range(m):
            sub = [e for e in names if rng.random() >= miss]
            ds.append(ranking_over(rng, sub, tp))
        if cls == "D4":
            for _ in range(rng.randint(1, 2)):
                ds.insert(rng.randint(0, len(ds)), [])
        return ds
    if cls == "D5":      # one element
        return [[[names[0]]] for _ in range(m)] + ([[]] if rng.random() < 0.3 else [])
    if cls == "D6":      # repeated rankings
        base = [ranking_over(rng, [e for e in names if rng.random() < 0.8], 0.3) for _ in range(max(1, m // 2))]
        ds = [[list(b) for b in rng.choice(base)] for _ in range(m)]
        return ds
    if cls == "D7":      # sparse: blocks of elements, rankings cover one or two blocks only
        k = rng.randint(2, max(2, min(4, n)))
        blocks = [[] for _ in range(k)]
        for e in names:
            rng.choice(blocks).append(e)
        blocks = [b for b in blocks if b]
        ds = []
        for _ in range(max(m, 2)):
            chosen = rng.sample(blocks, rng.randint(1, min(2, len(blocks))))
            sub = [e for b in chosen for e in b if rng.random() < 0.9]
            ds.append(ranking_over(rng, sub, rng.choice([0.0, 0.3])))
        return ds
    if cls == "D8":      # near unanimous: perturbations of a base ranking
        base = ranking_over(rng, names, rng.choice([0.0, 0.3]))
        mm = max(m, 3)
        ds = []
        for _ in range(mm):
            r = perturb(rng, base, rng.choice([0, 0, 1, 1, 2]))
            if rng.random() < 0.3:
                drop = rng.choice(names)
                r = [[x for x in b if x != drop] for b in r]
                r = [b for b in r if b]
            ds.append(r)
        return ds
    if cls == "D9":      # Condorcet cycles: rotations of a permutation
        base = list(names)
        rng.shuffle(base)
        ds = []
        for i in range(max(m, 3)):
            k = i % len(base)
            rot = base[k:] + base[:k]
            r = [[e] for e in rot]
            if rng.random() < 0.3:
                r = perturb(rng, r, 1)
            ds.append(r)
        return ds
    if cls == "D10":     # block structured: blocks ordered (almost) unanimously, cycles inside blocks
        k = rng.randint(2, max(2, min(4, n)))
        order = list(names)
        rng.shuffle(order)
        cuts = sorted(rng.sample(range(1, n), min(k - 1, n - 1))) if n > 1 else []
        blocks = [order[i:j] for i, j in zip([0] + cuts, cuts + [n])]
        ds = []
        mm = max(m, 3)
        for i in range(mm):
            r = []
            present = [bi for bi in range(len(blocks)) if rng.random() < 0.8]
            for bi in present:
                blk = blocks[bi]
                kk = i % len(blk)
                rot = blk[kk:] + blk[:kk]
                sub = ranking_over(rng, rot, 0.25) if rng.random() < 0.4 else [[e] for e in rot]
                r.extend(sub)
            if rng.random() < 0.25 and len(r) > 1:       # one dissenting voter swaps two adjacent buckets
                j = rng.randrange(len(r) - 1)
                r[j], r[j + 1] = r[j + 1], r[j]
            if rng.random() < 0.2 and len(r) > 1:        # or ties two adjacent buckets across a block border
                j = rng.randrange(len(r) - 1)
                r[j] = r[j] + r.pop(j + 1)
            ds.append(r)
        return ds
    if cls == "D11":     # strong cycles inside blocks of 3-4 elements, blocks ordered unanimously, rankings that miss
        order = list(names)   # whole blocks: several non-trivial strongly connected components
        rng.shuffle(order)
        blocks, rem, at = [], n, 0
        while rem > 0:
            sz = min(rem, rng.choice([3, 3, 4]) if rem >= 3 else rem)
            blocks.append(order[at:at + sz])
            at += sz
            rem -= sz
        mm = rng.randint(3, max(3, mmax))
        skip = rng.choice([0.0, 0.2, 0.35])
        ds = []
        for i in range(mm):
            r = []
            for blk in blocks:
                if len(blocks) > 1 and rng.random() < skip:
                    continue
                kk = i % len(blk)
                rot = blk[kk:] + blk[:kk]
                sub = [[e] for e in rot]
                if len(sub) > 1 and rng.random() < 0.15:
                    j = rng.randrange(len(sub) - 1)
                    sub[j] = sub[j] + sub.pop(j + 1)
                r.extend(sub)
            ds.append(r)
        return ds
    if cls == "D13":     # coarsenings of one linear order: the rankings differ only by ties (pairwise "distance 0"
        order = list(names)   # under schemes where creating / breaking a tie is free)
        rng.shuffle(order)
        ds = []
        for _ in range(max(m, 2)):
            r = []
            for e in order:
                if r and rng.random() < 0.45:
                    r[-1].append(e)
                else:
                    r.append([e])
            ds.append(r)
        return ds
    if cls == "D22":     # a small incomplete dataset whose rankings are replicated 1-6 times each: 10 to 30 rankings, equal
        base = _dataset(rng, rng.choice(["D3", "D3", "D7", "D2"]), n, rng.randint(2, 5), names, nmax, mmax)   # means with
        ds = []                                                          # different numbers of rankings behind them
        for r in base:
            for _ in range(rng.choice([1, 2, 3, 4, 6])):
                ds.append([list(b) for b in r])
        return ds
    if cls == "D21":     # profile twins: pairs of elements that sit in the same bucket wherever they appear and are absent
        ds = _dataset(rng, rng.choice(["D3", "D3", "D4", "D2"]), n, max(m or 3, 3), names, nmax, mmax)    # together
        uni = ref.universe(ds)
        if len(uni) >= 3:
            a, b = rng.sample(uni, 2)
            out = []
            for r in ds:
                r2 = [[e for e in bk if e != b] for bk in r]
                r2 = [bk + [b] if a in bk else bk for bk in r2]
                r2 = [bk for bk in r2 if bk]
                if rng.random() < 0.45:          # this ranking lacks both twins
                    r2 = [[e for e in bk if e not in (a, b)] for bk in r2]
                    r2 = [bk for bk in r2 if bk]
                out.append(r2)
            if not any(a in bk for r in out for bk in r):
                out.append([[a, b]])
            ds = out
        return ds
    if cls == "D26":     # a component held together by ties only, around a perfectly balanced pair: a and b are never tied and
        # ordered each way equally often (before == after < tied: no preference at all between them), while each of them is
        # tied with the members of a group C in half of the rankings and ordered each way in the others (tying strictly
        # cheapest): {a, b} + C is one component, the all-tied bucket is not optimal, and the only pair that forbids it is the
        # balanced one
        order = list(names)
        rng.shuffle(order)
        a, b = order[0], order[1 % len(order)]
        if a == b:
            return [[[a]]]
        grp = order[2:2 + rng.choice([1, 1, 2])] or []
        rest = order[2 + len(grp):]
        if not grp:
            grp, rest = [], rest
        tail = [[e] for e in rest] if rng.random() < 0.6 else ([list(rest)] if rest else [])
        k = rng.choice([1, 1, 2])
        base = [[[a] + grp, [b]], [[b] + grp, [a]], [[a], [b] + grp], [[b], [a] + grp]]
        ds = []
        for r in base * k:
            ds.append([list(bk) for bk in r if bk] + [list(bk) for bk in tail])
        rng.shuffle(ds)
        return ds
    if cls == "D25":     # every pair is inverted as often as not (a ranking and its reverse, k times each) and a few partial
        # rankings rank one element of a pair and not the other: the cheapest placement of the pair is decided by the
        # penalties for unranked elements alone, on top of equal (possibly large) costs
        k = rng.choice([1, 1, 2])
        base = ranking_over(rng, names, rng.choice([0.0, 0.0, 0.3]))
        ds = [[list(b) for b in base] for _ in range(k)] + [[list(b) for b in reversed(base)] for _ in range(k)]
        for _ in range(rng.choice([1, 2, 3])):
            sub = [e for e in names if rng.random() < 0.6] or [names[0]]
            ds.append(ranking_over(rng, sub, rng.choice([0.0, 0.5, 1.0])))
        rng.shuffle(ds)
        return ds
    if cls == "D23":     # ordered blocks of 2-4 elements; for each block a voter either ranks it (a rotation of one order),
        # ties it entirely, or misses it entirely: whether the block is best tied or ordered then hinges on how many
        # voters miss it and on what the scheme charges for a pair of unranked elements (B[5] for ordering it, T[5] for
        # tying it) -- sub-problems that forget those voters, or price them wrongly, choose the wrong side
        order = list(names)
        rng.shuffle(order)
        blocks, at = [], 0
        while at < len(order):
            sz = min(len(order) - at, rng.choice(D23["sizes"]))
            blocks.append(order[at:at + sz])
            at += sz
        mm = rng.randint(D23["m"][0], max(D23["m"][1], mmax + 2))
        p_tie = rng.choice(D23["p_tie"])
        p_miss = rng.choice(D23["p_miss"])
        ds = []
        for i in range(mm):
            r = []
            for blk in blocks:
                u = rng.random()
                if u < p_miss and len(blocks) > 1:
                    continue
                if u < p_miss + p_tie:
                    r.append(list(blk))
                else:
                    kk = rng.randrange(len(blk)) if rng.random() < 0.3 else i % len(blk)
                    r.extend([[e] for e in blk[kk:] + blk[:kk]])
            ds.append(r)
        seen = set(universe_of(ds))
        for blk in blocks:
            if not set(blk) <= seen:
                ds.append([[e] for e in blk])
        return ds
    if cls == "D20":     # blocks with cyclic majorities whose members FIRST appear together in one tied bucket, over int
        # labels that collide in small hash tables: the iteration order of a bucket differs from the order of its
        # projection on a component (element <-> id correspondences that rely on set order break here)
        pool = [0, 1, 2, 3, 4, 5, 6, 7, 8, 9, 16, 17, 24, 32, 40, 13, 21]
        n = min(len(names), len(pool)) if names else rng.randint(5, 9)
        labels = rng.sample(pool, n)
        blocks, at = [], 0
        while at < n:
            sz = min(n - at, rng.choice([3, 3, 4]))
            blocks.append(labels[at:at + sz])
            at += sz
        first = []
        for blk in blocks:
            if first and rng.random() < 0.35:
                first[-1] = first[-1] + list(blk)
            else:
                first.append(list(blk))
        ds = [first]
        for i in range(rng.choice([3, 3, 6])):
            r = []
            for blk in blocks:
                kk = i % len(blk)
                r.extend([[e] for e in blk[kk:] + blk[:kk]])
            ds.append(r)
        if rng.random() < 0.4:
            ds.append([list(b) for b in first])
        return ds
    if cls == "D18":     # print twins: different complete rankings whose textual forms coincide (names made of the
        twins = ["x", "x, x", "x, x, x"]      # separators a bucket is printed with)
        extra = [e for e in ["w", "a", 7, "k_9"] if rng.random() < 0.4]
        extra = [str(e) for e in extra]
        r1 = [["x", "x, x"], ["x, x, x"]]
        r2 = [["x, x, x"], ["x", "x, x"]]
        ds = []
        for _ in range(rng.randint(2, 5)):
            base = [list(b) for b in (r1 if rng.random() < 0.55 else r2)]
            tail = list(extra)
            rng.shuffle(tail)
            pos = rng.randint(0, len(base))
            ds.append(base[:pos] + [[e] for e in tail] + base[pos:] if rng.random() < 0.5 else base + [[e] for e in tail])
        if all(ref.canon(r) == ref.canon(ds[0]) for r in ds):
            ds.append([list(b) for b in (r2 if ref.canon(ds[0])[0] == frozenset(r1[0]) else r1)] + [[e] for e in extra])
        if rng.random() < 0.3:
            ds.append(ranking_over(rng, twins + extra, 0.3))
        return ds
    if cls == "D16":     # an incomplete ranking next to its own unified form, an empty ranking next to the all-tied one
        ds = _dataset(rng, rng.choice(["D3", "D3", "D4", "D7"]), n, m, names, nmax, mmax)
        uni = ref.universe(ds)
        if uni:
            for r in list(ds)[:2]:
                if rng.random() < 0.8:
                    twin = ref.unify([r] + [[list(uni)]])[0]
                    ds.insert(rng.randint(0, len(ds)), [list(b) for b in twin])
        return ds
    if cls == "D17":     # complete rankings, each repeated one to three times
        base = _dataset(rng, rng.choice(["D1", "D2", "D2"]), n, max(1, (m or 3) // 2), names, nmax, mmax)
        ds = []
        for r in base:
            for _ in range(rng.choice([1, 2, 2, 3])):
                ds.append([list(b) for b in r])
        rng.shuffle(ds)
        return ds
    if cls == "D15":     # a ranking with ties and its reverse equally often, plus one-bucket partial rankings: with cheap
        base = ranking_over(rng, names, rng.choice([0.4, 0.6]))      # ties the all-tied ranking beats every input
        k = rng.choice([1, 2, 2, 3])
        ds = [[list(b) for b in base] for _ in range(k)] + [[list(b) for b in reversed(base)] for _ in range(k)]
        for _ in range(rng.choice([1, 1, 2])):
            sub = [e for e in names if rng.random() < 0.5] or [names[0]]
            ds.append([sub])
        rng.shuffle(ds)
        return ds
    if cls == "D14":     # rankings that contain an empty bucket (accepted by the Ranking constructor)
        ds = _dataset(rng, rng.choice(["D1", "D2", "D2", "D3"]), n, m, names, nmax, mmax)
        for r in ds:
            if rng.random() < 0.6:
                r.insert(rng.randint(0, len(r)), [])
        return ds
    if cls == "D12":     # shuffled insertion order, handled by the caller through names
        return _dataset(rng, rng.choice(["D2", "D3"]), n, m, names, nmax, mmax)
    raise ValueError(cls)


def candidate(rng, ds, kind=None):
    """candidate ranking for scoring; kinds: random / superset / alltied / linear / unified input /
    lacking (one dataset element removed)"""
    uni = ref.universe(ds)
    if kind is None:
        kind = rng.choice(["random", "random", "superset", "alltied", "linear", "input", "lacking"])
    if kind == "random":
        return kind, ranking_over(rng, uni, rng.choice([0.0, 0.3, 0.6]))
    if kind == "superset":
        if all(isinstance(e, int) for e in uni):
            extra = [max(uni) + 1 + i for i in range(rng.randint(1, 3))]
        else:
            extra = [f"foreign{i}" for i in range(rng.randint(1, 3))]
            if any(isinstance(e, int) for e in uni):
                extra = ["9991", "9992"][:rng.randint(1, 2)]
        return kind, ranking_over(rng, uni + extra, rng.choice([0.0, 0.3, 0.6]))
    if kind == "alltied":
        return kind, [list(uni)]
    if kind == "linear":
        return kind, ranking_over(rng, uni, 0.0)
    if kind == "input":
        return kind, [list(b) for b in rng.choice(ref.unify(ds))]
    if kind == "lacking":
        if len(uni) < 2:
            return "random", ranking_over(rng, uni, 0.3)
        drop = rng.choice(uni)
        return kind, ranking_over(rng, [e for e in uni if e != drop], 0.3)
    raise ValueError(kind)


def digest(obj):
    """short stable digest of a JSON-able case"""
    import hashlib
    import json
    return hashlib.sha1(json.dumps(obj, sort_keys=True, default=str).encode()).hexdigest()[:16]
