"""
The random source as a controllable schedule.

corankco draws randomness only through names bound at import time from the stdlib's hidden
random.Random instance (ranking.shuffle, ranking.randint, kwiksortrandom.choice).  ScriptedRandom
overrides _randbelow -- the single primitive under choice / randrange / randint / shuffle in
CPython -- so that every draw becomes an entry (arity, decision) of a decision stream that the
checker controls, records, enumerates and replays.
"""
import random
import sys


class ScriptedRandom(random.Random):
    def __init__(self, script=None, tail="zero", seed=0):
        super().__init__(seed)
        self.script = list(script or [])
        self.tail = tail              # what to answer once the script is exhausted: "zero" | "random"
        self.pos = 0
        self.log = []
        self._aux = random.Random(seed)

    def _randbelow(self, n):
        if self.pos < len(self.script):
            k = self.script[self.pos] % n
        elif self.tail == "random":
            k = self._aux.randrange(n)
        else:
            k = 0
        self.pos += 1
        self.log.append((n, k))
        return k

    def restart(self, script=None, tail=None, seed=None):
        if script is not None:
            self.script = list(script)
        if tail is not None:
            self.tail = tail
        if seed is not None:
            self._aux = random.Random(seed)
        self.pos = 0
        self.log = []


_SAVED = []


def install(scripted):
    """rebind every global of a loaded corankco module that is a bound method of the stdlib's hidden
    Random instance to the same method of the scripted instance; returns the rebound names"""
    hidden = random._inst          # pylint: disable=protected-access
    names = []
    for modname, mod in list(sys.modules.items()):
        if mod is None or not (modname == "corankco" or modname.startswith("corankco.")):
            continue
        for attr, val in list(vars(mod).items()):
            owner = getattr(val, "__self__", None)
            if owner is hidden or isinstance(owner, ScriptedRandom):
                meth = getattr(scripted, val.__name__, None)
                if meth is not None:
                    if owner is hidden:
                        _SAVED.append((mod, attr, val))
                    setattr(mod, attr, meth)
                    names.append(f"{modname}.{attr}")
    # code that looks the function up at call time (import random; random.choice(...)) goes through the module
    for fname in ("choice", "choices", "randint", "randrange", "shuffle", "sample", "random", "uniform"):
        cur = getattr(random, fname, None)
        if getattr(cur, "__self__", None) is hidden:
            _SAVED.append((random, fname, cur))
            setattr(random, fname, getattr(scripted, fname))
    return sorted(set(names))


def uninstall():
    while _SAVED:
        mod, attr, val = _SAVED.pop()
        setattr(mod, attr, val)


def enumerate_schedules(run, cap):
    """stateless depth-first enumeration of the decision tree: run(script) must execute the code under
    a ScriptedRandom(script, tail='zero') and return its log [(arity, decision), ...].
    Yields (script_used, log, result).  Stops after cap runs (returns False through StopIteration value)."""
    script = []
    count = 0
    while True:
        log, result = run(script)
        count += 1
        yield [k for _, k in log], log, result
        i = len(log) - 1
        while i >= 0 and log[i][1] + 1 >= log[i][0]:
            i -= 1
        if i < 0:
            return
        if count >= cap:
            return
        script = [k for _, k in log[:i]] + [log[i][1] + 1]
