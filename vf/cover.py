"""
Anchor-line coverage with sys.monitoring (Python 3.12): LINE events restricted to the files of
interest, each location disabled after its first hit (cost: a few percent).  Used in mode C
(NUMBA_DISABLE_JIT=1), where the numba kernels run as plain Python and are therefore visible.
"""
import os
import sys

TOOL = 3          # sys.monitoring tool id (0 debugger, 1 coverage, 2 profiler are conventional)
HITS = set()
FILES = {}
_ON = False


def start(repo, relfiles):
    """relfiles: paths relative to the repository root"""
    global _ON
    if not hasattr(sys, "monitoring"):
        return False
    mon = sys.monitoring
    for rel in relfiles:
        FILES[os.path.realpath(os.path.join(repo, rel))] = rel
    if _ON:
        return True      # files added before any of their code ran
    try:
        mon.use_tool_id(TOOL, "vf-cover")
    except ValueError:
        return False

    def on_line(code, line):
        rel = FILES.get(code.co_filename)
        if rel is None:
            rel = FILES.get(os.path.realpath(code.co_filename))
            if rel is None:
                return mon.DISABLE
        HITS.add((rel, line))
        return mon.DISABLE

    mon.register_callback(TOOL, mon.events.LINE, on_line)
    mon.set_events(TOOL, mon.events.LINE)
    _ON = True
    return True


def flush(ctx):
    for rel, line in HITS:
        ctx.setadd("lines:" + rel, line)


def executable_lines(path, lo, hi):
    """statement-start lines of a source file within [lo, hi] (what LINE events can report)"""
    import ast
    with open(path) as f:
        tree = ast.parse(f.read())
    lines = set()
    for node in ast.walk(tree):
        if isinstance(node, ast.stmt) and not isinstance(node, (ast.FunctionDef, ast.ClassDef, ast.AsyncFunctionDef)):
            # skip docstrings
            if isinstance(node, ast.Expr) and isinstance(getattr(node, "value", None), ast.Constant) \
                    and isinstance(node.value.value, str):
                continue
            # a bare annotation ("x: int") generates no code
            if isinstance(node, ast.AnnAssign) and node.value is None:
                continue
            if lo <= node.lineno <= hi:
                lines.add(node.lineno)
    return lines


def function_span(path, qualname):
    """(first line, last line) of the function / method `qualname` ("func" or "Class.method") in a source file"""
    import ast
    with open(path) as f:
        tree = ast.parse(f.read())
    parts = qualname.split(".")
    nodes = tree.body
    node = None
    for part in parts:
        node = next((n for n in nodes if isinstance(n, (ast.FunctionDef, ast.ClassDef, ast.AsyncFunctionDef))
                     and n.name == part), None)
        if node is None:
            return None
        nodes = node.body
    return node.lineno, node.end_lineno


def all_repo_files(repo):
    out = []
    for root, _dirs, files in os.walk(os.path.join(repo, "corankco")):
        for fn in files:
            if fn.endswith(".py"):
                out.append(os.path.relpath(os.path.join(root, fn), repo))
    return sorted(out)
