"""
Reach conditions that name internals (line ranges of an anchored file).  They gate the verdict
only while the anchored file is byte-identical to the version the ranges were recorded for
(sha256 in vf/anchors.json); once the file has been edited they are advisory.
"""
import hashlib
import json
import os

from vf import cover

HERE = os.path.dirname(os.path.abspath(__file__))


def recorded():
    p = os.path.join(HERE, "anchors.json")
    if not os.path.exists(p):
        return {}
    with open(p) as f:
        return json.load(f)


def sha(path):
    try:
        with open(path, "rb") as f:
            return hashlib.sha256(f.read()).hexdigest()
    except OSError:
        return None


def reach(info, specs, allowed_missing=()):
    """specs: list of (relfile, lo, hi, label).  Returns reach-condition entries."""
    out = []
    rec = recorded()
    if "C" not in "".join(info.get("modes", [])):
        return out
    for rel, lo, hi, label in specs:
        path = os.path.join(info["repo"], rel)
        unedited = rec.get(rel) is not None and rec.get(rel) == sha(path)
        try:
            want = cover.executable_lines(path, lo, hi)
        except (OSError, SyntaxError):
            continue
        got = set(info["sets"].get("lines:" + rel, ()))
        missing = sorted(l for l in want - got if (rel, l) not in allowed_missing)
        out.append({"name": f"anchor lines executed: {label} ({rel}:{lo}-{hi})",
                    "observed": f"{len(want) - len(missing)}/{len(want)} executable lines" +
                                (f", missing {missing[:12]}" if missing else ""),
                    "required": "all" if unedited else "advisory (file edited since the ranges were recorded)",
                    "ok": not missing, "gating": bool(unedited)})
    return out


# ---------------------------------------------------------------------------------------------
# whole-file reach of the files a property is anchored in (properties.jsonl: anchors.files)

VERIF = os.path.dirname(HERE)
_FILES = {}


def files_of(prop):
    """source files (relative to the repository) the property is anchored in"""
    if not _FILES:
        with open(os.path.join(VERIF, "properties.jsonl")) as f:
            for ln in f:
                if ln.strip():
                    p = json.loads(ln)
                    _FILES[p["id"]] = [x for x in p.get("anchors", {}).get("files", []) if x.endswith(".py")]
    return list(_FILES.get(prop, []))


def functions_of(path):
    """[(qualified name, first line, last line)] of every function / method of a source file"""
    import ast
    with open(path) as f:
        tree = ast.parse(f.read())
    out = []

    def walk(nodes, prefix):
        for n in nodes:
            if isinstance(n, (ast.FunctionDef, ast.AsyncFunctionDef)):
                out.append((prefix + n.name, n.lineno, n.end_lineno))
                walk(n.body, prefix + n.name + ".")
            elif isinstance(n, ast.ClassDef):
                walk(n.body, prefix + n.name + ".")
    walk(tree.body, "")
    return out


def baseline():
    p = os.path.join(HERE, "anchor_baseline.json")
    if not os.path.exists(p):
        return {}
    with open(p) as f:
        return json.load(f)


def entered_functions(path, hit_lines):
    hit = set(hit_lines)
    out = []
    for name, lo, hi in functions_of(path):
        body = cover.executable_lines(path, lo, hi)
        if body & hit:
            out.append(name)
    return out


def file_reach(prop, info):
    """per anchored file: which functions the workload entered (gating: every function the recorded baseline lists for
    this property and tier must still be entered -- while the file is byte-identical to the recorded version), and how many
    executable lines it executed (advisory; numba kernels are visible in interpreted shards only)"""
    out = []
    rec = recorded()
    base = baseline().get(prop, {}).get("quick", {})      # the thorough workloads are supersets of the quick ones
    for rel in files_of(prop):
        path = os.path.join(info["repo"], rel)
        try:
            funcs_spans = functions_of(path)
            funcs = [f[0] for f in funcs_spans]
            # statements inside functions only: module-level statements run at import time, before the recorder starts
            want = {ln for ln in cover.executable_lines(path, 1, 10 ** 9) if any(lo <= ln <= hi for _n, lo, hi in funcs_spans)}
            entered = set(entered_functions(path, info["sets"].get("lines:" + rel, ())))
        except (OSError, SyntaxError):
            continue
        got = set(info["sets"].get("lines:" + rel, ())) & want
        unedited = rec.get(rel) is not None and rec.get(rel) == sha(path)
        required = base.get(rel)
        if required is not None:
            lost = sorted(set(required) - entered)
            out.append({"name": f"functions of {rel} entered by the workload",
                        "observed": f"{len(entered)}/{len(funcs)}" + (f", no longer entered: {lost[:8]}" if lost else "") +
                                    (f"; never entered: {sorted(set(funcs) - entered)[:10]}" if set(funcs) - entered else ""),
                        "required": f"the {len(required)} entered at every recorded seed" if unedited else
                                    "advisory (file edited since the baseline was recorded)",
                        "ok": not lost, "gating": bool(unedited)})
        missing = sorted(want - got)
        out.append({"name": f"executable lines of {rel} executed (advisory)",
                    "observed": f"{len(got)}/{len(want)}" + (f", never executed: {missing[:25]}" if missing else ""),
                    "required": "advisory", "ok": True, "gating": False})
    return out
