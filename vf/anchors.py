"""
Reach conditions that name internals (line ranges of an anchored file).  They gate the verdict
only while the anchored file is byte-identical to the version the ranges were recorded for
(sha256 in vf/anchors.json); once the file has been edited they are advisory.
"""
import hashlib
import json
import os

from vf import cover

HERE = os.path.dirname(os.path.abspath(__file__))


def recorded():
    p = os.path.join(HERE, "anchors.json")
    if not os.path.exists(p):
        return {}
    with open(p) as f:
        return json.load(f)


def sha(path):
    try:
        with open(path, "rb") as f:
            return hashlib.sha256(f.read()).hexdigest()
    except OSError:
        return None


def reach(info, specs, allowed_missing=()):
    """specs: list of (relfile, lo, hi, label).  Returns reach-condition entries."""
    out = []
    rec = recorded()
    if "C" not in "".join(info.get("modes", [])):
        return out
    for rel, lo, hi, label in specs:
        path = os.path.join(info["repo"], rel)
        unedited = rec.get(rel) is not None and rec.get(rel) == sha(path)
        try:
            want = cover.executable_lines(path, lo, hi)
        except (OSError, SyntaxError):
            continue
        got = set(info["sets"].get("lines:" + rel, ()))
        missing = sorted(l for l in want - got if (rel, l) not in allowed_missing)
        out.append({"name": f"anchor lines executed: {label} ({rel}:{lo}-{hi})",
                    "observed": f"{len(want) - len(missing)}/{len(want)} executable lines" +
                                (f", missing {missing[:12]}" if missing else ""),
                    "required": "all" if unedited else "advisory (file edited since the ranges were recorded)",
                    "ok": not missing, "gating": bool(unedited)})
    return out
