"""
Bridge between raw cases (vf/ref.py representation) and the library's objects.
Only public accessors of corankco are used.
"""
import random

import corankco as ck
from corankco.algorithms.exact.exactalgorithmpulp import ExactAlgorithmPulp
from corankco.algorithms.rank_aggregation_algorithm import ScoringSchemeNotHandledException
from corankco.algorithms.pickaperm.pickaperm import InompleteRankingsIncompatibleWithScoringSchemeException
from corankco.algorithms.exact.exactalgorithmbase import IncompatibleArgumentsException

DOCUMENTED_REFUSALS = (ScoringSchemeNotHandledException, InompleteRankingsIncompatibleWithScoringSchemeException,
                       IncompatibleArgumentsException)


def mk_ranking(raw):
    return ck.Ranking([set(b) for b in raw])


FORM_COUNTS = {"datasets": 0, "datasets_from_other_forms": 0, "datasets_given_weights": 0, "datasets_that_are_copies": 0}


def dataset_subclass():
    """a user-defined sub-class of Dataset that adds nothing (class methods such as from_raw_list return it)"""
    class LabelledDataset(ck.Dataset):
        pass
    return LabelledDataset


def mk_dataset(raw, name=None):
    """One dataset in twelve (chosen by a checksum of the raw data, hence reproducible) is built from rankings given in the
    other accepted input forms (mk_ranking_form): every property then meets datasets whose rankings came from one-shot
    iterables, tuples of frozensets, lists of lists."""
    import zlib
    FORM_COUNTS["datasets"] += 1
    crc = zlib.crc32(repr(raw).encode()) if 0 < len(raw) <= 12 and sum(len(r) for r in raw) <= 200 else 1
    if crc % 12 == 0:
        FORM_COUNTS["datasets_from_other_forms"] += 1
        d = mk_dataset_forms(raw, [FORMS[(crc >> (3 * i + 4)) % len(FORMS)] for i in range(len(raw))])
    elif crc % 12 == 1:
        # the constructor's optional `weights` argument (one float per ranking; the properties are stated for the rankings as
        # they are, and the unchanged constructor ignores it): non-uniform weights
        FORM_COUNTS["datasets_given_weights"] += 1
        d = ck.Dataset([mk_ranking(r) for r in raw], weights=[float(1 + ((crc >> (2 * i + 5)) % 4) * (i % 2 + 1)) for i in range(len(raw))])
    elif crc % 12 == 2:
        # a deep copy / an in-process pickle round trip of the dataset (what a caller who wants to keep the original does)
        import copy
        import pickle
        FORM_COUNTS["datasets_that_are_copies"] += 1
        d0 = ck.Dataset([mk_ranking(r) for r in raw])
        d = copy.deepcopy(d0) if (crc >> 7) % 2 else pickle.loads(pickle.dumps(d0))
    else:
        d = ck.Dataset([mk_ranking(r) for r in raw])
    if name is not None:
        d.name = name
    return d


def mk_ranking_form(raw, form):
    """the same ranking given to the constructor in another valid form: a one-shot generator of sets, a map object, a
    reversed iterator of the reversed list, a tuple of frozensets, a list of lists"""
    if form == "generator":
        return ck.Ranking(set(b) for b in raw)
    if form == "map":
        return ck.Ranking(map(set, raw))
    if form == "reversed":
        return ck.Ranking(reversed([set(b) for b in reversed(raw)]))
    if form == "tuple-frozensets":
        return ck.Ranking(tuple(frozenset(b) for b in raw))
    if form == "lists":
        return ck.Ranking([list(b) for b in raw])
    return mk_ranking(raw)


FORMS = ["generator", "map", "reversed", "tuple-frozensets", "lists"]


def mk_dataset_forms(raw, forms):
    """forms: one form per ranking (see mk_ranking_form)"""
    return ck.Dataset([mk_ranking_form(r, f) for r, f in zip(raw, forms)])


def pickled_elsewhere(raws, hashseed, repo):
    """Dataset objects built from the raw datasets and pickled by ANOTHER interpreter (its own PYTHONHASHSEED), loaded
    here: objects saved by an earlier run or sent to a spawned worker.  Returns a list of Dataset (or None where the other
    interpreter could not build one)."""
    import json
    import os
    import pickle
    import subprocess
    import sys
    import tempfile
    fd, path = tempfile.mkstemp(suffix=".pkl")
    os.close(fd)
    code = ("import json, pickle, sys\nimport corankco as ck\nraws = json.loads(sys.stdin.read())\nout = []\n"
            "for raw in raws:\n    try:\n        out.append(ck.Dataset([ck.Ranking([set(b) for b in r]) for r in raw]))\n"
            "    except Exception:\n        out.append(None)\n"
            "pickle.dump(out, open(sys.argv[1], 'wb'))\n")
    env = dict(os.environ, PYTHONHASHSEED=str(hashseed), PYTHONPATH=repo + os.pathsep + os.environ.get("PYTHONPATH", ""))
    env.pop("NUMBA_DISABLE_JIT", None)
    try:
        r = subprocess.run([sys.executable, "-c", code, path], input=json.dumps(raws), text=True, env=env,
                           stdout=subprocess.PIPE, stderr=subprocess.PIPE, timeout=300)
        if r.returncode != 0:
            return None
        with open(path, "rb") as f:
            return pickle.load(f)
    finally:
        if os.path.exists(path):
            os.remove(path)


def mk_scheme(raw):
    return ck.ScoringScheme([list(raw[0]), list(raw[1])])


def raw_element(e):
    """value of an Element (int or str)"""
    return e.value


def raw_ranking(r):
    return [[raw_element(e) for e in b] for b in r.buckets]


def raw_ranking_iter(r):
    """through iteration (what algorithms use)"""
    return [[raw_element(e) for e in b] for b in r]


def raw_dataset(d):
    return [raw_ranking(r) for r in d.rankings]


def lib_value(e, expect_int):
    """the value the library is expected to hold for raw name e in a dataset whose names are all
    integer-like (expect_int) or not"""
    if expect_int:
        return int(e)
    return str(e)


def normalise_raw(raw):
    """raw dataset with the names the library will hold (ints when all int-like, else strings)"""
    from vf import ref
    ei = ref.expected_type_is_int(raw)
    return [[[lib_value(e, ei) for e in b] for b in r] for r in raw]


def seed_library(seed):
    """the library draws from the stdlib global generator"""
    random.seed(seed)


# ---------------------------------------------------------------------------------------------
# algorithm configurations


def has_cplex():
    try:
        import cplex  # noqa: F401
        return True
    except ImportError:
        return False


def make_algorithm(name):
    """instantiate an algorithm configuration by name"""
    A = ck.algorithms
    if name.startswith("enum:"):
        # the documented way to obtain an algorithm from the Algorithm enumeration
        from corankco.algorithms import get_algorithm, Algorithm
        return get_algorithm(Algorithm[name[5:]])
    if name == "Borda":
        return ck.BordaCount()
    if name == "BordaBucket":
        return ck.BordaCount(use_bucket_id=True)
    if name == "Copeland":
        return ck.CopelandMethod()
    if name == "KwikSort":
        return ck.KwikSortRandom()
    if name == "PickAPerm":
        return ck.PickAPerm()
    if name == "BioConsert":
        return ck.BioConsert()
    if name == "BioCo":
        return ck.BioCo()
    if name == "BioConsert[!invalid]":
        # documented: starting algorithms that are not all RankAggAlgorithm objects are ignored (default departures)
        return ck.BioConsert(starting_algorithms=[ck.BordaCount(), "not an algorithm"])
    if name.startswith("BioConsert["):
        container, inner = starters_of(name)
        starters = [make_algorithm(x) for x in inner]
        given = {"list": lambda: starters, "tuple": lambda: tuple(starters), "set": lambda: set(starters),
                 "frozenset": lambda: frozenset(starters),
                 "dictvalues": lambda: {i: a for i, a in enumerate(starters)}.values(),
                 "dictkeys": lambda: {a: i for i, a in enumerate(starters)}.keys(),
                 "iter": lambda: iter(starters), "gen": lambda: (a for a in starters)}[container]()
        return ck.BioConsert(starting_algorithms=given)
    if name == "Pulp":
        return ExactAlgorithmPulp()
    if name == "Exact":
        return ck.ExactAlgorithm()
    if name == "ExactNoOpt":
        return ck.ExactAlgorithm(optimize=False)
    if name == "ParCons":
        return ck.ParCons()
    if name.startswith("ParCons("):
        # ParCons(aux;bound)
        inner = name[len("ParCons("):-1]
        aux, bound = inner.rsplit(";", 1)
        return ck.ParCons(auxiliary_algorithm=make_algorithm(aux) if aux != "-" else None,
                          bound_for_exact=int(bound))
    if name == "Cplex":
        from corankco.algorithms.exact.exactalgorithmcplex import ExactAlgorithmCplex
        return ExactAlgorithmCplex(optimize=True)
    if name == "CplexNoOpt":
        from corankco.algorithms.exact.exactalgorithmcplex import ExactAlgorithmCplex
        return ExactAlgorithmCplex(optimize=False)
    if name == "CplexOptim1":
        from corankco.algorithms.exact.exactalgorithmcplexforpaperoptim1 import ExactAlgorithmCplexForPaperOptim1
        return ExactAlgorithmCplexForPaperOptim1()
    raise ValueError(name)


STARTER_CONTAINERS = ("tuple", "set", "frozenset", "dictvalues", "dictkeys", "iter", "gen")


def starters_of(name):
    """'BioConsert[set:Borda,Copeland]' -> ('set', ['Borda', 'Copeland']); without prefix the container is a list"""
    inner = name[len("BioConsert["):-1]
    container = "list"
    for c in STARTER_CONTAINERS:
        if inner.startswith(c + ":"):
            container, inner = c, inner[len(c) + 1:]
            break
    return container, split_top(inner)


def split_top(s):
    """split on commas that are not inside brackets / parentheses"""
    out, depth, cur = [], 0, ""
    for ch in s:
        if ch in "[(":
            depth += 1
        elif ch in ")]":
            depth -= 1
        if ch == "," and depth == 0:
            out.append(cur)
            cur = ""
        else:
            cur += ch
    if cur:
        out.append(cur)
    return out


# configurations that need an ILP solve (slow) are marked
BASE_CONFIGS = ["Borda", "BordaBucket", "Copeland", "KwikSort", "PickAPerm", "BioConsert", "BioCo",
                "BioConsert[Borda]", "BioConsert[Copeland,KwikSort]", "BioConsert[PickAPerm]",
                "ParCons", "ParCons(BioConsert;0)", "ParCons(KwikSort;2)", "ParCons(Copeland;2)", "ParCons(Borda;0)",
                "ParCons(BioCo;2)", "Pulp", "Exact", "ExactNoOpt", "BioConsert[Pulp]", "BioConsert[!invalid]"]
CPLEX_CONFIGS = ["Cplex", "CplexNoOpt", "CplexOptim1"]
ENUM_CONFIGS = ["enum:EXACT", "enum:PARCONS", "enum:BIOCONSERT", "enum:BIOCO", "enum:KWIKSORTRANDOM", "enum:PICKAPERM",
                "enum:BORDACOUNT", "enum:COPELANDMETHOD"]
EXACT_CONFIGS = {"Pulp", "Exact", "ExactNoOpt", "Cplex", "CplexNoOpt", "CplexOptim1"}


def is_random_config(name):
    return "KwikSort" in name or "KWIKSORT" in name
