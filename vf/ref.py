"""
Independent reference model for corankco, written from the ScoringScheme docstring
(meaning of B[0..5], T[0..5]) and from the property statements only.

Raw representation (JSON friendly):
    element : int | str
    ranking : list of buckets, bucket = list of elements (order inside a bucket is irrelevant)
    dataset : list of rankings
    scheme  : [B, T], two lists of 6 numbers (floats that are exact binary fractions, or Fractions)

All arithmetic is exact (fractions.Fraction or scaled integers).  Nothing here imports corankco,
numpy or numba.
"""
from fractions import Fraction as F
from itertools import combinations

# ---------------------------------------------------------------------------------------------
# basic notions


def fr(x):
    """exact rational value of a penalty / score (floats are converted exactly)"""
    if isinstance(x, F):
        return x
    if isinstance(x, bool):
        raise TypeError("bool is not a number here")
    if isinstance(x, int):
        return F(x)
    if isinstance(x, float):
        return F(x)           # exact binary expansion
    if isinstance(x, str):
        return F(x)
    return F(float(x))


def scheme_fr(scheme):
    return [[fr(v) for v in scheme[0]], [fr(v) for v in scheme[1]]]


def bucket_index(ranking):
    """element -> index of its bucket"""
    pos = {}
    for i, bucket in enumerate(ranking):
        for e in bucket:
            if e in pos:
                raise ValueError("buckets are not disjoint")
            pos[e] = i
    return pos


def universe(dataset):
    """elements in order of first appearance (ranking by ranking, bucket by bucket)"""
    seen = {}
    for r in dataset:
        for b in r:
            for e in b:
                seen.setdefault(e, None)
    return list(seen)


def status(x, y, rpos):
    """status of the ordered pair (x, y) in an input ranking: 0 x<y, 1 x>y, 2 tied,
    3 only x ranked, 4 only y ranked, 5 none ranked"""
    px = rpos.get(x)
    py = rpos.get(y)
    if px is None:
        return 5 if py is None else 4
    if py is None:
        return 3
    if px < py:
        return 0
    if px > py:
        return 1
    return 2


def kemeny(candidate, dataset, scheme, detail=None):
    """Generalized Kemeny score: sum over input rankings and unordered pairs of candidate
    elements of the penalty of the pair's placement in the candidate given its status in the
    input ranking.  `detail`, if given, is a dict filled with counts[(placement, status)].
    (The twelve (placement, status) cells are counted as integers and priced once at the end.)"""
    B, T = scheme_fr(scheme)
    cpos = bucket_index(candidate)
    elems = list(cpos)
    cb = [cpos[e] for e in elems]
    n = len(elems)
    cnt_b = [0] * 6
    cnt_t = [0] * 6
    for r in dataset:
        rpos = bucket_index(r)
        rb = [rpos.get(e) for e in elems]
        for i in range(n):
            ci, ri = cb[i], rb[i]
            for j in range(i + 1, n):
                cj, rj = cb[j], rb[j]
                # status of the pair taken in the order of the candidate (x = the one placed first)
                if ci < cj:
                    px, py, tied = ri, rj, False
                elif ci > cj:
                    px, py, tied = rj, ri, False
                else:
                    px, py, tied = ri, rj, True
                if px is None:
                    st = 5 if py is None else 4
                elif py is None:
                    st = 3
                elif px < py:
                    st = 0
                elif px > py:
                    st = 1
                else:
                    st = 2
                if tied:
                    cnt_t[st] += 1
                else:
                    cnt_b[st] += 1
    total = F(0)
    for st in range(6):
        total += B[st] * cnt_b[st] + T[st] * cnt_t[st]
        if detail is not None:
            if cnt_b[st]:
                detail[("B", st)] = detail.get(("B", st), 0) + cnt_b[st]
            if cnt_t[st]:
                detail[("T", st)] = detail.get(("T", st), 0) + cnt_t[st]
    return total


def is_complete_towards(candidate, dataset):
    cpos = bucket_index(candidate)
    return all(e in cpos for e in universe(dataset))


def cost_table(dataset, scheme, elems=None):
    """table[x][y] = (before, after, tied): total penalty of placing x before y, x after y,
    x tied with y, summed over the input rankings"""
    B, T = scheme_fr(scheme)
    if elems is None:
        elems = universe(dataset)
    rposs = [bucket_index(r) for r in dataset]
    table = {x: {} for x in elems}
    for x in elems:
        for y in elems:
            if x == y:
                table[x][y] = (F(0), F(0), F(0))
                continue
            bef = aft = tie = F(0)
            for rpos in rposs:
                bef += B[status(x, y, rpos)]
                aft += B[status(y, x, rpos)]
                tie += T[status(x, y, rpos)]
            table[x][y] = (bef, aft, tie)
    return table


def kemeny_from_table(candidate, table):
    cpos = bucket_index(candidate)
    elems = list(cpos)
    total = F(0)
    for i in range(len(elems)):
        for j in range(i + 1, len(elems)):
            x, y = elems[i], elems[j]
            if cpos[x] < cpos[y]:
                total += table[x][y][0]
            elif cpos[x] > cpos[y]:
                total += table[x][y][1]
            else:
                total += table[x][y][2]
    return total


def canon(ranking):
    """canonical hashable form of a ranking"""
    return tuple(frozenset(b) for b in ranking)


def canon_sorted(ranking):
    """canonical JSON-able form (buckets sorted by repr)"""
    return [sorted(b, key=lambda e: (isinstance(e, str), e)) for b in ranking]


# ---------------------------------------------------------------------------------------------
# enumeration of rankings with ties and exact optima


def weak_orders(elems):
    """all rankings with ties of the list `elems` (Fubini number many)"""
    elems = list(elems)
    if not elems:
        yield []
        return
    n = len(elems)
    for mask in range(1, 1 << n):
        first = [elems[i] for i in range(n) if mask >> i & 1]
        rest = [elems[i] for i in range(n) if not mask >> i & 1]
        for tail in weak_orders(rest):
            yield [first] + tail


def optimum_bruteforce(dataset, scheme, elems=None):
    """(minimum score, list of all minimisers) by explicit enumeration"""
    if elems is None:
        elems = universe(dataset)
    table = cost_table(dataset, scheme, elems)
    best = None
    arg = []
    for r in weak_orders(elems):
        s = kemeny_from_table(r, table)
        if best is None or s < best:
            best, arg = s, [r]
        elif s == best:
            arg.append(r)
    return best, arg


class Optimum:
    """Exact optimum by dynamic programming over subsets (3^n), on scaled integer costs.

    f(S) = min over non-empty A subset of S of  tie(A) + cross(A, S minus A) + f(S minus A)
    where A is the first bucket.  Reconstruction enumerates every minimiser."""

    def __init__(self, table, elems):
        self.elems = list(elems)
        n = self.n = len(self.elems)
        den = 1
        for x in self.elems:
            for y in self.elems:
                for v in table[x][y]:
                    d = v.denominator
                    if den % d:
                        from math import gcd
                        den = den * d // gcd(den, d)
        self.den = den
        bef = [[int(table[x][y][0] * den) for y in self.elems] for x in self.elems]
        tie = [[int(table[x][y][2] * den) for y in self.elems] for x in self.elems]
        full = (1 << n) - 1
        # W[x][mask] = sum of before(x, y) for y in mask
        W = [[0] * (1 << n) for _ in range(n)]
        TI = [0] * (1 << n)      # tie cost inside mask
        for mask in range(1, 1 << n):
            low = (mask & -mask).bit_length() - 1
            rest = mask & (mask - 1)
            for x in range(n):
                W[x][mask] = W[x][rest] + bef[x][low]
            # ties between low and the rest
            t = TI[rest]
            m = rest
            while m:
                y = (m & -m).bit_length() - 1
                t += tie[low][y]
                m &= m - 1
            TI[mask] = t
        self.W, self.TI = W, TI
        f = [0] * (1 << n)
        members = [[i for i in range(n) if m >> i & 1] for m in range(1 << n)]
        self.members = members
        for S in range(1, 1 << n):
            best = None
            A = S
            while A:
                R = S ^ A
                c = TI[A] + f[R]
                if R:
                    for x in members[A]:
                        c += W[x][R]
                if best is None or c < best:
                    best = c
                A = (A - 1) & S
            f[S] = best
        self.f = f
        self.full = full

    @property
    def value(self):
        return F(self.f[self.full], self.den)

    def first_cost(self, A, S):
        R = S ^ A
        c = self.TI[A]
        if R:
            for x in self.members[A]:
                c += self.W[x][R]
        return c

    def minimisers(self, cap=20000):
        """all optimal rankings (lists of lists of elements); None if more than cap"""
        out = []
        elems = self.elems

        def rec(S, prefix):
            if len(out) > cap:
                return
            if S == 0:
                out.append(list(prefix))
                return
            A = S
            while A:
                if self.first_cost(A, S) + self.f[S ^ A] == self.f[S]:
                    prefix.append([elems[i] for i in self.members[A]])
                    rec(S ^ A, prefix)
                    prefix.pop()
                A = (A - 1) & S
        rec(self.full, [])
        if len(out) > cap:
            return None
        return out

    def count_minimisers(self):
        cnt = [0] * (1 << self.n)
        cnt[0] = 1
        for S in range(1, 1 << self.n):
            A = S
            c = 0
            while A:
                if self.first_cost(A, S) + self.f[S ^ A] == self.f[S]:
                    c += cnt[S ^ A]
                A = (A - 1) & S
            cnt[S] = c
        return cnt[self.full]

    def best_within(self, mask):
        """optimal cost (scaled) of ranking only the elements of mask among themselves"""
        return self.f[mask]

    def best_respecting(self, groups):
        """minimum score over the rankings that place every element of an earlier group strictly
        before every element of a later group (groups: list of lists of elements)"""
        idx = {e: i for i, e in enumerate(self.elems)}
        masks = []
        for g in groups:
            m = 0
            for e in g:
                m |= 1 << idx[e]
            masks.append(m)
        total = 0
        later = 0
        for m in reversed(masks):
            total += self.f[m]
            if later:
                for x in self.members[m]:
                    total += self.W[x][later]
            later |= m
        return F(total, self.den)


def optimum_dp(dataset, scheme, elems=None):
    if elems is None:
        elems = universe(dataset)
    return Optimum(cost_table(dataset, scheme, elems), elems)


class BlockOptimum:
    """Exact optimum of a dataset too large for the subset DP, whose universe splits into ordered `blocks` such that for
    every x of an earlier block and y of a later block 'x before y' is a cheapest placement of the pair (checked here on
    the cost table, never assumed: `ok` is False otherwise).

    Any ranking with ties costs at least the cheapest placement on every cross pair and, on the pairs inside a block, at
    least the block's own optimum (its restriction to the block is a ranking with ties of the block); the concatenation
    of block optima reaches that bound, so   optimum = sum of cross 'before' costs + sum of block optima.
    When 'before' is strictly cheapest on every cross pair (`strict`), a ranking is optimal exactly when it is a
    concatenation, in block order, of one minimiser per block."""

    def __init__(self, dataset, scheme, blocks, table=None):
        self.blocks = [list(b) for b in blocks]
        elems = [e for b in self.blocks for e in b]
        self.elems = elems
        self.table = table = table or cost_table(dataset, scheme, elems)
        self.block_of = {e: i for i, b in enumerate(self.blocks) for e in b}
        ok = strict = True
        cross = F(0)
        for i, bi in enumerate(self.blocks):
            for bj in self.blocks[i + 1:]:
                for x in bi:
                    row = table[x]
                    for y in bj:
                        bef, aft, tie = row[y]
                        if bef > aft or bef > tie:
                            ok = False
                        elif bef == aft or bef == tie:
                            strict = False
                        cross += bef
        self.ok = ok
        self.strict = ok and strict
        self.cross = cross
        self.dps = [Optimum(table, b) for b in self.blocks] if ok else []
        self.value = cross + sum((dp.value for dp in self.dps), F(0)) if ok else None

    def compatible(self, groups):
        """no element of a later block sits in an earlier group than an element of an earlier block"""
        gpos = {e: i for i, g in enumerate(groups) for e in g}
        hi = -1
        for b in self.blocks:
            lo = min(gpos[e] for e in b)
            if lo < hi:
                return False
            hi = max(hi, max(gpos[e] for e in b))
        return True

    def restricted(self, groups, bi):
        blk = set(self.blocks[bi])
        out = [[e for e in g if e in blk] for g in groups]
        return [g for g in out if g]

    def best_respecting(self, groups):
        """minimum score over the rankings respecting the ordered partition `groups`; None when it cannot be decided
        by the decomposition (groups that invert two blocks whose cross placement is not strict)"""
        if not self.ok:
            return None
        if not self.compatible(groups):
            return None
        total = self.cross
        for bi, dp in enumerate(self.dps):
            total += dp.best_respecting(self.restricted(groups, bi))
        return total

    def optimum_violating(self, groups, cap=5000):
        """strict decompositions only: an optimal ranking that does not respect `groups`, or None if every optimal
        ranking respects them; 'unknown' when a block has more than cap minimisers"""
        assert self.strict
        picks = []
        witness_block = None
        for bi, dp in enumerate(self.dps):
            mins = dp.minimisers(cap=cap)
            if mins is None:
                return "unknown"
            picks.append(mins[0])
            sub = self.restricted(groups, bi)
            for r in mins:
                if not respects(r, sub):
                    witness_block = (bi, r)
                    break
        if witness_block is not None:
            bi, r = witness_block
            picks[bi] = r
            return [list(b) for p in picks for b in p]
        if not self.compatible(groups):
            return [list(b) for p in picks for b in p]
        return None

    def nb_optima(self, cap=10 ** 9):
        tot = 1
        for dp in self.dps:
            tot *= dp.count_minimisers()
        return tot


# ---------------------------------------------------------------------------------------------
# local moves (C08)


def single_moves(ranking):
    """every ranking obtained by moving one element into another existing bucket or into a new
    singleton bucket at any position.  Yields (element, description, new ranking)."""
    k = len(ranking)
    for bi, bucket in enumerate(ranking):
        for e in bucket:
            base = [[x for x in b if x != e] for b in ranking]
            # join another existing bucket
            for bj in range(k):
                if bj == bi:
                    continue
                new = [list(b) for b in base]
                new[bj].append(e)
                new = [b for b in new if b]
                yield e, ("join", bj), new
            # new singleton bucket at any position of the ranking without e
            stripped = [b for b in base if b]
            for p in range(len(stripped) + 1):
                new = [list(b) for b in stripped[:p]] + [[e]] + [list(b) for b in stripped[p:]]
                if canon(new) != canon(ranking):
                    yield e, ("new", p), new


# ---------------------------------------------------------------------------------------------
# dataset level notions


def unify(dataset):
    """each ranking completed with its missing elements in one last bucket"""
    uni = universe(dataset)
    out = []
    for r in dataset:
        pos = bucket_index(r)
        missing = [e for e in uni if e not in pos]
        nr = [list(b) for b in r]
        if missing:
            nr.append(missing)
        out.append(nr)
    return out


def project(dataset, keep):
    """projection on a set of elements: rankings meeting the set, order preserved, buckets
    restricted, empty buckets dropped"""
    keep = set(keep)
    out = []
    for r in dataset:
        nr = [[e for e in b if e in keep] for b in r]
        nr = [b for b in nr if b]
        if nr:
            out.append(nr)
    return out


def is_complete(dataset):
    uni = set(universe(dataset))
    return all(set(bucket_index(r)) == uni for r in dataset)


def without_ties(dataset):
    return all(len(b) == 1 for r in dataset for b in r)


def dataset_multiset(dataset):
    from collections import Counter
    return Counter(canon(r) for r in dataset)


def int_like(e):
    """an int, or a string made of decimal digits only (what int() converts without sign, blank or underscore);
    str.isdigit() would also accept superscripts such as '\u00b2', which int() refuses"""
    return isinstance(e, int) or (isinstance(e, str) and e.isdecimal())


def expected_type_is_int(dataset):
    """every name is integer-like AND no two different names are read as the same integer ("07" and "7" next to each other
    stay the two strings they are: converting them would merge two elements)"""
    names = {}
    for r in dataset:
        for b in r:
            for e in b:
                if not int_like(e):
                    return False
                if names.setdefault(int(e), str(e)) != str(e):
                    return False
    return True


# ---------------------------------------------------------------------------------------------
# scoring schemes


def scheme_valid(B, T):
    """the statement of C19: two lists of six non-negative numbers with B[0]=0, B[1]>0,
    B[3]<=B[4], T[0]=T[1], T[2]=0, T[3]=T[4]"""
    return (len(B) == 6 and len(T) == 6 and all(v >= 0 for v in B) and all(v >= 0 for v in T)
            and B[0] == 0 and B[1] > 0 and B[3] <= B[4] and T[0] == T[1] and T[2] == 0 and T[3] == T[4])


def proportional(s1, s2, stop=6):
    """exists k>0 with s1 = k*s2 on the first `stop` entries of both vectors"""
    a = [fr(v) for v in s1[0][:stop]] + [fr(v) for v in s1[1][:stop]]
    b = [fr(v) for v in s2[0][:stop]] + [fr(v) for v in s2[1][:stop]]
    k = None
    for u, v in zip(a, b):
        if (u == 0) != (v == 0):
            return False
        if u != 0:
            q = u / v
            if k is None:
                k = q
            elif q != k:
                return False
    return True


PRESETS = {
    "unifying": [[0., 1., 1., 0., 1., 1.], [1., 1., 0., 1., 1., 0.]],
    "pseudodistance": [[0., 1., 1., 0., 1., 0.], [1., 1., 0., 1., 1., 0.]],
    "induced": [[0., 1., 1., 0., 0., 0.], [1., 1., 0., 0., 0., 0.]],
    "extended": [[0., 1., 0., 0., 0., 0.], [1., 1., 0., 1., 1., 1.]],
    "unifying_half": [[0., 1., .5, 0., 1., .5], [.5, .5, 0., .5, .5, 0.]],
    "pseudodistance_half": [[0., 1., .5, 0., 1., 0.], [.5, .5, 0., .5, .5, 0.]],
    "induced_half": [[0., 1., .5, 0., 0., 0.], [.5, .5, 0., 0., 0., 0.]],
}

NICKNAME_ORDER = [("UKSP", "unifying"), ("GPDP", "pseudodistance"), ("IGKS", "induced"), ("EKS", "extended")]


def nickname(scheme):
    for nick, name in NICKNAME_ORDER:
        if proportional(scheme, PRESETS[name]):
            return nick
    return None


def borda_family(scheme):
    """'unified' / 'skipped' / None: which treatment of unranked elements Borda documents"""
    if proportional(scheme, PRESETS["unifying"]) or proportional(scheme, PRESETS["unifying_half"]):
        return "unified"
    if proportional(scheme, PRESETS["induced"]) or proportional(scheme, PRESETS["induced_half"]):
        return "skipped"
    return None


# ---------------------------------------------------------------------------------------------
# Borda, Copeland, KwikSort, PickAPerm references


def group_by_key(elems, key, reverse=False):
    """ranking with ties: groups of equal key in increasing (decreasing) key order"""
    ks = sorted({key[e] for e in elems}, reverse=reverse)
    return [[e for e in elems if key[e] == k] for k in ks]


def borda(dataset, scheme, use_bucket_id):
    """expected Borda ranking (elements by increasing mean score)"""
    fam = borda_family(scheme)
    rankings = unify(dataset) if fam == "unified" else dataset
    tot, cnt = {}, {}
    for r in rankings:
        before = 0
        for bi, b in enumerate(r):
            for e in b:
                tot[e] = tot.get(e, 0) + (bi if use_bucket_id else before)
                cnt[e] = cnt.get(e, 0) + 1
            before += len(b)
    mean = {e: F(tot[e], cnt[e]) for e in tot}
    return group_by_key(list(mean), mean), mean


def copeland(dataset, scheme):
    elems = universe(dataset)
    table = cost_table(dataset, scheme, elems)
    score = {e: F(0) for e in elems}
    ved = {e: [0, 0, 0] for e in elems}
    for x, y in combinations(elems, 2):
        bef, aft, _ = table[x][y]
        if bef < aft:
            score[x] += 1
            ved[x][0] += 1
            ved[y][2] += 1
        elif aft < bef:
            score[y] += 1
            ved[y][0] += 1
            ved[x][2] += 1
        else:
            score[x] += F(1, 2)
            score[y] += F(1, 2)
            ved[x][1] += 1
            ved[y][1] += 1
    return group_by_key(elems, score, reverse=True), score, ved


def place(e, p, table):
    """cheapest placement of e relative to pivot p: 'tie' if tying costs no more than both
    others, else 'before' if before costs no more than after, else 'after'"""
    bef, aft, tie = table[e][p]
    if tie <= bef and tie <= aft:
        return "tie"
    if bef <= aft:
        return "before"
    return "after"


def coherent_ranking(dataset, scheme):
    """if the cheapest placements are antisymmetric and form a ranking with ties, return it,
    else None"""
    elems = universe(dataset)
    table = cost_table(dataset, scheme, elems)
    rel = {}
    for x in elems:
        for y in elems:
            if x != y:
                rel[x, y] = place(x, y, table)
    inv = {"before": "after", "after": "before", "tie": "tie"}
    for x, y in combinations(elems, 2):
        if rel[x, y] != inv[rel[y, x]]:
            return None
    # tie must be an equivalence, before must be a strict weak order compatible with it
    nb_before = {x: sum(1 for y in elems if y != x and rel[y, x] == "before") for x in elems}
    ranking = group_by_key(elems, nb_before)
    pos = bucket_index(ranking)
    for x in elems:
        for y in elems:
            if x == y:
                continue
            want = "before" if pos[x] < pos[y] else ("after" if pos[x] > pos[y] else "tie")
            if rel[x, y] != want:
                return None
    return ranking


def relation_in(ranking_pos, e, p):
    if ranking_pos[e] < ranking_pos[p]:
        return "before"
    if ranking_pos[e] > ranking_pos[p]:
        return "after"
    return "tie"


def pickaperm(dataset, scheme):
    """(candidates, minimal score, set of canonical minimal candidates)"""
    cands = dataset if is_complete(dataset) else unify(dataset)
    scores = [kemeny(c, dataset, scheme) for c in cands]
    best = min(scores)
    return cands, best, {canon(c) for c, s in zip(cands, scores) if s == best}


# ---------------------------------------------------------------------------------------------
# partitions


def is_partition_of(groups, elems):
    seen = set()
    for g in groups:
        if len(g) == 0:
            return False
        for e in g:
            if e in seen:
                return False
            seen.add(e)
    return seen == set(elems)


def respects(ranking, groups):
    """same element set, and every element of an earlier group strictly before every element of
    a later group"""
    gpos = {}
    for i, g in enumerate(groups):
        for e in g:
            gpos[e] = i
    rpos = bucket_index(ranking)
    if set(gpos) != set(rpos):
        return False
    elems = list(rpos)
    for x in elems:
        for y in elems:
            if gpos[x] < gpos[y] and not rpos[x] < rpos[y]:
                return False
    return True


def coarsens_in_order(coarse, fine):
    """every group of `coarse` is the union of consecutive groups of `fine`, in order"""
    i = 0
    for g in coarse:
        g = set(g)
        acc = set()
        while i < len(fine) and acc != g:
            if not set(fine[i]) <= g:
                return False
            acc |= set(fine[i])
            i += 1
        if acc != g:
            return False
    return i == len(fine)


# ---------------------------------------------------------------------------------------------
# self test


def selftest():
    """internal identities; raises AssertionError if the oracle is broken"""
    import random
    rng = random.Random(12345)
    # README example: dataset [[{1},{2},{3}], [{3},{1},{2}], [{1},{3,2}]] hand computed
    ds = [[[1], [2], [3]], [[1], [2], [3]]]
    uni = PRESETS["unifying"]
    assert kemeny([[1], [2], [3]], ds, uni) == 0
    assert kemeny([[3], [2], [1]], ds, uni) == 6
    assert kemeny([[1, 2, 3]], ds, uni) == 6
    # incomplete: ranking [[1]] vs candidate [[1],[2]]: pair (1,2): 1 before 2, only 1 ranked -> B[3]=0
    assert kemeny([[1], [2]], [[[1]], [[2], [1]]], uni) == 0 + 1
    assert kemeny([[2], [1]], [[[1]], [[2], [1]]], uni) == 1 + 0      # B[4] for the first ranking
    assert kemeny([[1, 2]], [[[1]], [[2], [1]]], uni) == 1 + 1
    # both unranked: B[5] / T[5]
    assert kemeny([[1], [2], [3]], [[[3]], [[1], [2], [3]]], uni) == 1 + 1 + 1   # (1,2):B5=1 (1,3):B4=1 (2,3):B4=1
    assert len(list(weak_orders(range(3)))) == 13
    assert len(list(weak_orders(range(4)))) == 75
    for _ in range(25):
        n = rng.randint(1, 5)
        m = rng.randint(1, 4)
        elems = list(range(n))
        ds = []
        for _ in range(m):
            sub = [e for e in elems if rng.random() < 0.7]
            rng.shuffle(sub)
            r = []
            for e in sub:
                if r and rng.random() < 0.4:
                    r[-1].append(e)
                else:
                    r.append([e])
            ds.append(r)
        if not universe(ds):
            continue
        grid = [0, .25, .5, 1, 2, 3]
        B = [0, rng.choice(grid[1:]), rng.choice(grid), 0, 0, rng.choice(grid)]
        B[3] = rng.choice(grid[:3])
        B[4] = B[3] + rng.choice(grid)
        t01, t34 = rng.choice(grid), rng.choice(grid)
        T = [t01, t01, 0, t34, t34, rng.choice(grid)]
        sch = [B, T]
        assert scheme_valid(B, T)
        el = universe(ds)
        table = cost_table(ds, sch, el)
        bf, arg = optimum_bruteforce(ds, sch, el)
        dp = Optimum(table, el)
        assert dp.value == bf, (dp.value, bf)
        mins = dp.minimisers()
        assert {canon(r) for r in mins} == {canon(r) for r in arg}
        assert dp.count_minimisers() == len(arg)
        for r in arg[:3]:
            assert kemeny(r, ds, sch) == kemeny_from_table(r, table) == bf
        # mirror consistency
        for x in el:
            for y in el:
                assert table[x][y][0] == table[y][x][1] and table[x][y][2] == table[y][x][2]
        # best_respecting with the trivial partition equals the optimum
        assert dp.best_respecting([el]) == bf
        # single moves never produce the same ranking and keep the element set
        r0 = arg[0]
        for _e, _d, nr in single_moves(r0):
            assert canon(nr) != canon(r0)
            assert sorted(map(repr, bucket_index(nr))) == sorted(map(repr, bucket_index(r0)))
    # composite oracle against the plain DP on small block-structured datasets
    decided = 0
    for it in range(30):
        sizes = [rng.randint(1, 3) for _ in range(rng.randint(2, 3))]
        blocks, at = [], 0
        for s in sizes:
            blocks.append(list(range(at, at + s)))
            at += s
        ds = []
        for i in range(rng.randint(2, 5)):
            r = []
            for blk in blocks:
                if rng.random() < 0.2:
                    continue
                sub = list(blk)
                rng.shuffle(sub)
                for e in sub:
                    if r and rng.random() < 0.15:
                        r[-1].append(e)
                    else:
                        r.append([e])
            ds.append(r)
        el = [e for b in blocks for e in b]
        if set(universe(ds)) != set(el):
            continue
        sch = [PRESETS["unifying"], PRESETS["induced"], [[0, 1, 1, 0, 1, 0], [.5, .5, 0, .5, .5, 0]]][it % 3]
        bo = BlockOptimum(ds, sch, blocks)
        dp = Optimum(bo.table, el)
        if not bo.ok:
            continue
        decided += 1
        assert bo.value == dp.value, (ds, sch, blocks)
        groups = []
        for b in dp.minimisers()[0]:
            if groups and rng.random() < 0.5:
                groups[-1] = groups[-1] + list(b)
            else:
                groups.append(list(b))
        br = bo.best_respecting(groups)
        assert br is None or br == dp.best_respecting(groups)
        shuffled = list(groups)
        rng.shuffle(shuffled)
        br = bo.best_respecting(shuffled)
        assert br is None or br == dp.best_respecting(shuffled), (ds, sch, blocks, shuffled)
        if bo.strict:
            assert bo.nb_optima() == dp.count_minimisers()
            for gs in (groups, shuffled):
                w = bo.optimum_violating(gs)
                truth = [r for r in dp.minimisers() if not respects(r, gs)]
                assert (w is None) == (not truth), (ds, sch, blocks, gs)
                if w is not None:
                    assert canon(w) in {canon(r) for r in truth}
    assert decided >= 5, decided
    assert proportional(PRESETS["unifying"], [[0, 2, 2, 0, 2, 2], [2, 2, 0, 2, 2, 0]])
    assert not proportional(PRESETS["unifying"], [[0, 1, 1, 0, 1, 1], [3, 3, 0, 2, 2, 0]])
    assert nickname(PRESETS["unifying_half"]) is None and nickname(PRESETS["extended"]) == "EKS"
    assert coarsens_in_order([[1, 2], [3]], [[1], [2], [3]]) and not coarsens_in_order([[1, 3], [2]], [[1], [2], [3]])
    assert respects([[1], [2, 3]], [[1], [2, 3]]) and not respects([[1, 2], [3]], [[1], [2, 3]])
    return True


if __name__ == "__main__":
    selftest()
    print("ref selftest ok")
