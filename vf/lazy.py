"""
Lazy module proxies: the parent process (vf.run) imports the monitor modules only for their
plan() / reach() functions and must not import corankco, numba or icontract (they are loaded in
the children, from $VERIF_REPO and /verif/.deps).
"""
import importlib


class Lazy:
    def __init__(self, name):
        self.__dict__["_name"] = name
        self.__dict__["_mod"] = None

    def _load(self):
        if self.__dict__["_mod"] is None:
            self.__dict__["_mod"] = importlib.import_module(self.__dict__["_name"])
        return self.__dict__["_mod"]

    def __getattr__(self, attr):
        return getattr(self._load(), attr)


ck = Lazy("corankco")
libx = Lazy("vf.libx")
common = Lazy("vf.monitors.common")
np = Lazy("numpy")
