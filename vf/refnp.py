"""
Second reference model, vectorised (numpy), for sizes the exact Fraction model of vf/ref.py cannot reach in a check's
budget: hundreds to thousands of elements, hundreds of rankings, scores in the millions.

Written from the same definitions as vf/ref.py (status of a pair in a ranking, B / T penalty vectors) and from nothing of the
library.  Penalties are dyadic in every workload that uses it, so all float64 sums below 2^53 are exact and results are
compared with ==.  `selftest()` cross-checks every function against vf/ref.py on small random cases at the start of every
shard that uses it.
"""
import numpy as np


def elements_index(elems):
    return {e: i for i, e in enumerate(elems)}


def positions(dataset, elems):
    """int matrix (n, m): bucket index of element i in ranking j, -1 when the ranking does not contain it"""
    idx = elements_index(elems)
    pos = np.full((len(elems), len(dataset)), -1, dtype=np.int64)
    for j, r in enumerate(dataset):
        for b, bucket in enumerate(r):
            for e in bucket:
                pos[idx[e], j] = b
    return pos


def status_matrix(p):
    """p: positions of the n elements in ONE ranking.  S[x, y] in 0..5: x before y, x after y, tied, only x ranked, only y
    ranked, neither ranked"""
    rx = (p >= 0)[:, None]
    ry = (p >= 0)[None, :]
    px = p[:, None]
    py = p[None, :]
    s = np.full((len(p), len(p)), 5, dtype=np.int64)
    both = rx & ry
    s[both & (px < py)] = 0
    s[both & (px > py)] = 1
    s[both & (px == py)] = 2
    s[rx & ~ry] = 3
    s[~rx & ry] = 4
    return s


def cost_table(dataset, scheme, elems):
    """float array (n, n, 3): total penalty of placing x before y, x after y, x tied with y"""
    B = np.asarray(scheme[0], dtype=np.float64)
    T = np.asarray(scheme[1], dtype=np.float64)
    pos = positions(dataset, elems)
    n = len(elems)
    table = np.zeros((n, n, 3), dtype=np.float64)
    for j in range(pos.shape[1]):
        s = status_matrix(pos[:, j])
        table[:, :, 0] += B[s]
        table[:, :, 1] += B[s.T]
        table[:, :, 2] += T[s]
    idx = np.arange(n)
    table[idx, idx, :] = 0.0
    return table


def candidate_positions(candidate, elems):
    idx = elements_index(elems)
    c = np.full(len(elems), -1, dtype=np.int64)
    for b, bucket in enumerate(candidate):
        for e in bucket:
            if e in idx:
                c[idx[e]] = b
    return c


def score_from_table(c, table):
    """Kemeny score of the candidate whose bucket indices are c (all >= 0), from a cost table"""
    cx = c[:, None]
    cy = c[None, :]
    upper = np.triu(np.ones((len(c), len(c)), dtype=bool), 1)
    total = table[:, :, 0][upper & (cx < cy)].sum() + table[:, :, 1][upper & (cx > cy)].sum() + \
        table[:, :, 2][upper & (cx == cy)].sum()
    return float(total)


def kemeny(candidate, dataset, scheme, elems=None):
    """score of a candidate that contains every element of the dataset (pairs of candidate elements only when the
    candidate holds more)"""
    cand_elems = [e for b in candidate for e in b]
    elems = cand_elems
    table = cost_table(dataset_restricted(dataset, set(cand_elems)), scheme, elems)
    return score_from_table(candidate_positions(candidate, elems), table)


def dataset_restricted(dataset, keep):
    """rankings projected on `keep` (an element outside the candidate plays no part in any pair); empty buckets removed,
    rankings kept even when empty (they still price the pairs of unranked elements)"""
    out = []
    for r in dataset:
        rr = [[e for e in b if e in keep] for b in r]
        out.append([b for b in rr if b])
    return out


def best_single_move_gain(c, table):
    """largest decrease of the score obtainable by moving ONE element into another existing bucket or into a new bucket at
    any position (the moves of property C08).  c: bucket indices 0..k-1 of a ranking with non-empty buckets.
    Returns (gain, element index, description)"""
    n = len(c)
    k = int(c.max()) + 1
    best = (0.0, None, None)
    # per element: cost of being before / after / tied with each bucket, by summing the table over the bucket's members
    onehot = np.zeros((n, k), dtype=np.float64)
    onehot[np.arange(n), c] = 1.0
    bef = table[:, :, 0] @ onehot      # bef[e, b] = sum over y in bucket b of cost(e before y)
    aft = table[:, :, 1] @ onehot
    tie = table[:, :, 2] @ onehot
    sizes = onehot.sum(axis=0)
    for e in range(n):
        be = c[e]
        # remove e's own contribution (diagonal entries are 0, so nothing to remove)
        # cost of e when placed strictly between buckets: before all buckets >= q, after all buckets < q
        pre_after = np.concatenate(([0.0], np.cumsum(aft[e])))          # pre_after[q] = e after buckets 0..q-1
        suf_before = np.concatenate((np.cumsum(bef[e][::-1])[::-1], [0.0]))   # suf_before[q] = e before buckets q..k-1
        current = pre_after[be] + suf_before[be + 1] + tie[e, be]
        alone = sizes[be] == 1
        # join bucket b != be: after the buckets before b, before the buckets after b, tied with b's members (when e leaves a
        # multi-member bucket its former mates stay where they are: they are counted in bucket be like everybody else)
        join = pre_after[:-1] + suf_before[1:] + tie[e]
        join[be] = np.inf
        # new bucket at gap q (before bucket q), q in 0..k; when e was alone, gaps be and be + 1 give the same ranking
        new = pre_after + suf_before
        if alone:
            new[be] = np.inf
            new[be + 1] = np.inf
        jb = int(np.argmin(join)) if k > 1 else None
        nq = int(np.argmin(new))
        if jb is not None and current - join[jb] > best[0]:
            best = (float(current - join[jb]), e, ("join", jb))
        if current - new[nq] > best[0]:
            best = (float(current - new[nq]), e, ("new", nq))
    return best


def copeland(table):
    """(scores, victories, equalities, defeats) per element index, from a cost table: 1 point for each opponent it is
    cheaper to place before than after, 1/2 when both placements cost the same"""
    bef, aft = table[:, :, 0], table[:, :, 1]
    n = bef.shape[0]
    off = ~np.eye(n, dtype=bool)
    v = ((bef < aft) & off).sum(axis=1)
    d = ((aft < bef) & off).sum(axis=1)
    e = ((bef == aft) & off).sum(axis=1)
    return v + e / 2.0, v, e, d


def groups_by(values, elems, decreasing=False):
    """ranking with ties of `elems` by increasing (decreasing) value, tied exactly on equal values"""
    order = sorted(set(values.tolist()), reverse=decreasing)
    where = {val: [] for val in order}
    for e, val in zip(elems, values.tolist()):
        where[val].append(e)
    return [where[val] for val in order]


def borda(dataset, elems, use_bucket_id, unified):
    """mean positional score per element index (exact Fractions as (total, count)): the number of elements strictly before
    it (or its bucket index); unranked elements form one last bucket (`unified`) or are skipped"""
    from fractions import Fraction
    idx = elements_index(elems)
    n = len(elems)
    tot = [0] * n
    cnt = [0] * n
    for r in dataset:
        before = 0
        seen = set()
        for bi, b in enumerate(r):
            for e in b:
                i = idx[e]
                tot[i] += bi if use_bucket_id else before
                cnt[i] += 1
                seen.add(i)
            before += len(b)
        if unified and len(seen) < n:
            val = len(r) if use_bucket_id else before
            for i in range(n):
                if i not in seen:
                    tot[i] += val
                    cnt[i] += 1
    return [Fraction(t, c) if c else None for t, c in zip(tot, cnt)]


def universe_complete_or(fam, ds):
    return True


def selftest(rng=None):
    """cross-check against the exact model on small random cases; raises AssertionError on disagreement"""
    import random
    from vf import ref, gen
    rng = rng or random.Random(4242)
    for it in range(25):
        cls, ds = gen.dataset(rng, classes="D2 D3 D3 D4 D7 D9", nmax=6, mmax=5, outlier=0)
        scls, sch = gen.scheme(rng, "S1 S3 S3 S15")
        elems = ref.universe(ds)
        t = cost_table(ds, sch, elems)
        rt = ref.cost_table(ds, sch, elems)
        for i, x in enumerate(elems):
            for j, y in enumerate(elems):
                assert tuple(ref.fr(v) for v in t[i, j]) == tuple(rt[x][y]), ("cost table", ds, sch, x, y)
        cand = gen.ranking_over(rng, elems, rng.choice([0.0, 0.4]))
        assert ref.fr(kemeny(cand, ds, sch)) == ref.kemeny(cand, ds, sch), ("kemeny", ds, sch, cand)
        c = candidate_positions(cand, elems)
        gain, e, how = best_single_move_gain(c, t)
        base = ref.kemeny(cand, ds, sch)
        want = max([base - ref.kemeny(nr, ds, sch) for _e, _d, nr in ref.single_moves(cand)] + [0])
        assert ref.fr(gain) == want, ("best move", ds, sch, cand, gain, float(want))
        sc, v, e_, d_ = copeland(t)
        exp_r, exp_score, exp_ved = ref.copeland(ds, sch)
        assert [ref.fr(x) for x in sc.tolist()] == [exp_score[x] for x in elems], ("copeland", ds, sch)
        assert [[int(a), int(b), int(c)] for a, b, c in zip(v, e_, d_)] == [exp_ved[x] for x in elems]
        assert [set(g) for g in groups_by(sc, elems, decreasing=True)] == [set(g) for g in exp_r]
        fam = ref.borda_family(sch)
        if fam is not None and universe_complete_or(fam, ds):
            for ub in (False, True):
                means = borda(ds, elems, ub, fam == "unified")
                exp_rank, exp_mean = ref.borda(ds, sch, ub)
                assert all(means[i] == exp_mean[x] for i, x in enumerate(elems) if x in exp_mean), ("borda", ds, sch, ub)
    return True
