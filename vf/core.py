"""
Child side of the framework: execution context handed to the monitors, and the child entry point.

    python -m vf.core <specfile> <outfile>

The child imports corankco from $VERIF_REPO (put first on sys.path by the parent through
PYTHONPATH), runs one shard of one property's workload under the property's monitors and writes
one JSON document with counters, digests of non-trivial cases, samples and violations.
"""
import faulthandler
import importlib
import json
import os
import random
import sys
import time
import traceback

from vf import gen


class ReplayFailure(Exception):
    """raised in --replay mode at the first violation, so that the witness comes with a stack"""


class Ctx:
    def __init__(self, spec, replay=False):
        self.spec = spec
        self.prop = spec["prop"]
        self.tier = spec.get("tier", "quick")
        self.mode = spec.get("mode", "A")
        self.params = spec.get("params", {})
        self.replay = replay
        self.counters = {}
        self.sets = {}
        self.digests = set()
        self.samples = []
        self.sample_keys = set()
        self.violations = []
        self.violation_keys = set()
        self.violations_total = 0
        self.errors = []
        self.gen_errors = []
        self.evaluations = 0
        self.current_case = None
        self.index = None
        self.units = 0
        self.max_samples = 6
        self.inflight_path = spec.get("inflight")
        self.t0 = time.time()

    # -- bookkeeping -------------------------------------------------------------------------
    def count(self, key, n=1):
        self.counters[key] = self.counters.get(key, 0) + n

    def setadd(self, name, item):
        self.sets.setdefault(name, set()).add(item)

    def maxi(self, key, v):
        k = "max:" + key
        if v > self.counters.get(k, float("-inf")):
            self.counters[k] = v

    def nontrivial(self, obj):
        self.digests.add(obj if isinstance(obj, str) and len(obj) == 16 else gen.digest(obj))

    def sample(self, obj, key=None):
        if key is None:
            key = len(self.samples)
        if key in self.sample_keys or len(self.samples) >= self.max_samples:
            return
        self.sample_keys.add(key)
        self.samples.append(obj)

    def unit(self, n=1):
        """one judged execution (a case may hold several: configurations, flags, successor datasets): when a monitor
        counts units, they are what the evidence reports as evaluations"""
        self.units += n

    def begin(self, case):
        self.evaluations += 1
        self.current_case = case
        if self.inflight_path:
            with open(self.inflight_path, "w") as f:
                json.dump(case, f, default=str)

    def end(self):
        if self.inflight_path and os.path.exists(self.inflight_path):
            os.remove(self.inflight_path)

    # -- verdicts ----------------------------------------------------------------------------
    def violation(self, signature, what, case, observed=None, expected=None):
        """signature: mechanism key computed from the witness (never from hashes / random values)"""
        self.violations_total += 1
        self.count("violations:" + signature)
        key = (signature, gen.digest(case))
        if key not in self.violation_keys and len(self.violations) < 60:
            self.violation_keys.add(key)
            origin = self.current_case if (self.current_case is not None and self.current_case is not case) else None
            self.violations.append({"signature": signature, "what": what, "case": case, "origin_case": origin,
                                    "observed": jsonable(observed), "expected": jsonable(expected),
                                    "mode": self.mode, "hashseed": os.environ.get("PYTHONHASHSEED"),
                                    "shard_position": {"seed": self.spec.get("seed"), "shard": self.spec.get("shard"),
                                                       "index": self.index, "params": self.params,
                                                       "tier": self.tier}})
        if self.replay:
            raise ReplayFailure(f"{signature}: {what}\n observed={observed!r}\n expected={expected!r}")

    def error(self, what):
        if len(self.errors) < 10:
            self.errors.append(what)
        self.count("harness_errors")

    def result(self):
        try:
            from vf import libx
            for k, v in libx.FORM_COUNTS.items():
                if v:
                    self.counters[k] = v
            algos = sys.modules.get("vf.monitors.algos")
            if algos is not None and algos.BENCH_RUNS[0]:
                self.counters["runs_with_bench_mode"] = algos.BENCH_RUNS[0]
        except Exception:
            pass
        return {"prop": self.prop, "spec": self.spec, "counters": self.counters,
                "digests": sorted(self.digests), "sets": {k: sorted(v) for k, v in self.sets.items()}, "samples": self.samples, "violations": self.violations,
                "violations_total": self.violations_total, "errors": self.errors, "gen_errors": self.gen_errors,
                "evaluations": self.units or self.evaluations, "cases": self.evaluations, "wall_s": round(time.time() - self.t0, 3)}


def jsonable(x):
    from fractions import Fraction
    if x is None or isinstance(x, (bool, int, str)):
        return x
    if isinstance(x, float):
        return x if x == x and abs(x) != float("inf") else repr(x)
    if isinstance(x, Fraction):
        return float(x) if x.denominator & (x.denominator - 1) == 0 else str(x)
    if isinstance(x, dict):
        return {str(k): jsonable(v) for k, v in x.items()}
    if isinstance(x, (list, tuple, set, frozenset)):
        return [jsonable(v) for v in x]
    try:
        import numpy as np
        if isinstance(x, np.generic):
            return jsonable(x.item())
        if isinstance(x, np.ndarray):
            return jsonable(x.tolist())
    except ImportError:
        pass
    return repr(x)


def call(fn, *args, **kwargs):
    """run library code; returns ('ok', value) or ('exc', exception)"""
    try:
        return "ok", fn(*args, **kwargs)
    except ReplayFailure:
        raise
    except Exception as exc:      # pylint: disable=broad-except
        return "exc", exc


def exc_desc(exc):
    tb = traceback.extract_tb(exc.__traceback__)
    where = ""
    for fr in reversed(tb):
        if "corankco" in fr.filename:
            where = f"{os.path.basename(fr.filename)}:{fr.lineno}"
            break
    return f"{type(exc).__name__}({str(exc)[:120]}) at {where}"


def canary_boundscheck():
    """mode B is only meaningful if numba's bounds checking is really on in this process (numba's
    on-disk cache ignores NUMBA_BOUNDSCHECK, hence one cache directory per mode)"""
    import numpy as np
    from numba import jit

    @jit(nopython=True)
    def _k(a, i):
        return a[i]
    try:
        _k(np.zeros(4), 7)
    except IndexError:
        return True
    return False


def load_module(prop):
    return importlib.import_module("vf.monitors." + prop.lower())


def default_run_shard(mod, spec, ctx):
    n = spec["n_cases"]
    soft = spec.get("soft_s", 1e9)
    for i in range(n):
        if time.time() - ctx.t0 > soft:
            ctx.count("stopped_early_cases_left", n - i)
            break
        rng = random.Random(f"{spec['seed']}/{spec['prop']}/{spec['shard']}/{i}")
        ctx.index = i
        try:
            case = mod.gen_case(rng, ctx)
        except Exception:       # pylint: disable=broad-except
            # a workload generator that fails on a rare draw loses one case, it does not invalidate the others: counted,
            # reported, and fatal only when frequent (see vf/run.py)
            ctx.count("generator_errors")
            if len(ctx.gen_errors) < 3:
                ctx.gen_errors.append(traceback.format_exc(limit=6))
            continue
        if case is None:
            continue
        ctx.begin(case)
        try:
            mod.check_case(case, ctx)
        except ReplayFailure:
            raise
        except Exception:       # pylint: disable=broad-except
            ctx.error("monitor: " + traceback.format_exc(limit=8) + "\ncase=" + json.dumps(case, default=str)[:2000])
    ctx.end()


def run_repo_tests(spec, ctx):
    """shard kind 'repotests': the repository's own test suite under the monitors (vf/pytest_plugin.py);
    problems whose signature belongs to this property become violations, the others are counted"""
    import subprocess
    import tempfile
    out = tempfile.mktemp(prefix="plugin", suffix=".json", dir=os.environ.get("TMPDIR"))
    env = dict(os.environ)
    env["VF_PLUGIN_OUT"] = out
    case = {"repository_tests": True}
    ctx.begin(case)
    r = subprocess.run([sys.executable, "-m", "pytest", "-q", "-p", "no:cacheprovider", "-p", "vf.pytest_plugin",
                        os.path.join(spec["repo"], "tests")], env=env, cwd=spec["repo"], stdout=subprocess.PIPE,
                       stderr=subprocess.STDOUT, text=True, timeout=1800)
    ctx.end()
    if not os.path.exists(out):
        ctx.error("repository tests under monitors produced no report: " + r.stdout[-800:])
        return
    with open(out) as f:
        rep = json.load(f)
    os.remove(out)
    ctx.count("repotests:algorithm_calls", rep.get("algorithm_calls", 0))
    ctx.count("repotests:kemeny_contract_evaluations", rep.get("kemeny_contract", 0))
    ctx.count("repotests:cost_tables_judged", rep.get("cost_tables", 0))
    ctx.count("repotests:invariant_evaluations", rep.get("invariants", 0))
    ctx.count("repotests:pytest_exit_status", rep.get("exitstatus", 0))
    for pr in rep.get("problems", []):
        if pr["signature"].startswith(spec["prop"] + "/"):
            ctx.violation(pr["signature"] + ":in-repository-tests", "while running the repository's own tests: "
                          + pr["what"], pr.get("case") or case, observed=pr.get("observed"), expected=pr.get("expected"))
        else:
            ctx.count("repotests:problems_of_other_properties")
    ctx.nontrivial(case)
    ctx.sample({"repository_tests_under_monitors": {k: v for k, v in rep.items() if k != "problems"}}, key="repotests")


def make_decoys():
    """other live objects of the library, kept alive for the whole shard: a string-typed dataset whose names are the digit
    strings of the integers every workload uses ("0" .. "12", next to a word), an integer dataset, a consensus, schemes.
    Interning, sharing or memoising by value / by printed form between unrelated objects shows up against them."""
    try:
        import corankco as ck
        names = [str(i) for i in range(13)]
        d_str = ck.Dataset.from_raw_list([[{"word"}] + [{x} for x in names], [{x} for x in reversed(names)] + [{"word"}]])
        d_int = ck.Dataset.from_raw_list([[{i} for i in range(13)], [set(range(13))]])
        sch = ck.ScoringScheme.get_unifying_scoring_scheme()
        cons = ck.CopelandMethod().compute_consensus_rankings(d_str, sch, True)
        return [d_str, d_int, sch, cons, cons.kemeny_score, ck.Ranking([{"3"}, {"a"}, {"7"}]), d_str.get_positions()]
    except Exception:      # pylint: disable=broad-except
        return []


def main(argv):
    specfile, outfile = argv[1], argv[2]
    with open(specfile) as f:
        spec = json.load(f)
    errlog = open(outfile + ".fault", "w")
    faulthandler.enable(file=errlog)
    ctx = Ctx(spec)
    mod = load_module(spec["prop"])
    if "B" in ctx.mode and not canary_boundscheck():
        ctx.error("mode B: the bounds-check canary kernel did not raise IndexError")
    # (before any line recorder starts: a location met while its file is not yet watched is disabled for good)
    ctx.decoys = make_decoys()
    if hasattr(mod, "setup"):
        mod.setup(ctx)
    cover_files = sorted({a[0] for a in getattr(mod, "ANCHORS", [])} | set(spec.get("cover_files") or []))
    if os.environ.get("VERIF_COVER_ALL") == "1":
        from vf import cover
        cover_files = cover.all_repo_files(spec["repo"])
    if cover_files:
        from vf import cover
        cover.start(spec["repo"], cover_files)
    if spec.get("kind") == "repotests":
        run_repo_tests(spec, ctx)
    elif hasattr(mod, "run_shard"):
        mod.run_shard(spec, ctx)
        ctx.end()
    else:
        default_run_shard(mod, spec, ctx)
    if hasattr(mod, "finish"):
        mod.finish(ctx)
    if cover_files:
        from vf import cover
        cover.flush(ctx)
    with open(outfile, "w") as f:
        json.dump(ctx.result(), f, default=str)
    return 0


def replay_main(argv):
    """python -m vf.core --replay <prop> <witnessfile>  -> exit 1 if the violation reproduces"""
    prop, path = argv[2], argv[3]
    with open(path) as f:
        wit = json.load(f)
    spec = {"prop": prop, "tier": "replay", "mode": wit.get("mode", "A"), "seed": 0, "shard": 0,
            "params": wit.get("params", {}), "repo": os.path.abspath(os.environ.get("VERIF_REPO", "/repo"))}
    ctx = Ctx(spec, replay=True)
    # (per-position extras of a shard -- e.g. the batch of datasets pickled by another interpreter in C03 / C07 -- are keyed by
    # the position of the case in its shard; the witness of such an extra is its own sub-case, so a replay starts beyond them)
    ctx.index = 10 ** 9
    mod = load_module(prop)
    if hasattr(mod, "setup"):
        mod.setup(ctx)
    try:
        # the witness holds the (sub-)case the monitor judged and, when it differs, the full generated case it came from:
        # re-executing the full case reproduces the judged run in its original history
        full = wit.get("origin_case") or wit["case"]
        if hasattr(mod, "replay"):
            mod.replay(wit, ctx)
        else:
            ctx.begin(full)
            mod.check_case(full, ctx)
    except ReplayFailure as exc:
        traceback.print_exc()
        print(f"REPRODUCED property={prop} {exc}")
        return 1
    # the violation may depend on state left in shared objects by the earlier cases of its shard (algorithm objects are
    # reused across cases on purpose): re-run the shard from its first case up to the witness
    pos = wit.get("shard_position") or {}
    if pos.get("index") is not None and not hasattr(mod, "run_shard") and not hasattr(mod, "replay"):
        spec2 = dict(spec, seed=pos["seed"], shard=pos["shard"], tier=pos.get("tier", "quick"), params=pos.get("params") or {})
        ctx2 = Ctx(spec2, replay=True)
        if hasattr(mod, "setup"):
            mod.setup(ctx2)
        try:
            for i in range(pos["index"] + 1):
                rng = random.Random(f"{spec2['seed']}/{prop}/{spec2['shard']}/{i}")
                ctx2.index = i
                case = mod.gen_case(rng, ctx2)
                if case is None:
                    continue
                ctx2.begin(case)
                try:
                    mod.check_case(case, ctx2)
                except ReplayFailure:
                    raise
                except Exception:      # pylint: disable=broad-except
                    pass
        except ReplayFailure as exc:
            traceback.print_exc()
            print(f"REPRODUCED property={prop} (by re-running its shard up to case {ctx2.index}) {exc}")
            return 1
    print(f"NOT-REPRODUCED property={prop} (the witness passes on this tree)")
    return 0


if __name__ == "__main__":
    if len(sys.argv) > 1 and sys.argv[1] == "--replay":
        sys.exit(replay_main(sys.argv))
    sys.exit(main(sys.argv))
