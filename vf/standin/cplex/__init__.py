"""
Stand-in for the proprietary `cplex` Python module (not installable in this sandbox).

It implements exactly the API surface corankco uses, as a *generic 0-1 ILP solver facade* that
knows nothing about rankings:

    Cplex(), set_results_stream, parameters.<any.path>.set, objective.set_sense / sense.minimize,
    variables.add(obj, lb, ub, types, names), linear_constraints.add(lin_expr, senses, rhs, names),
    solve(), populate_solution_pool(), solution.get_values(), solution.pool.get_num/get_values

plus the attributes PuLP touches when it finds a module called cplex at import time
(callbacks.Callback, exceptions.CplexSolverError, infinity).

solve()    -> CBC through PuLP (imported lazily: PuLP itself imports `cplex` at import time).
populate() -> every solution within parameters.mip.pool.absgap of the optimum, by repeated CBC solves
              with no-good cuts.

Like the real module it rejects inconsistent argument lengths, unknown variable names and duplicate
variables in one row.  Every model handed over is recorded in MODELS for the harness.
"""
infinity = 1e20
__version__ = "0.0-standin"
MODELS = []          # recorded models: dicts(names, obj, rows, senses, rhs, kind, solutions)
SOLVES = {"solve": 0, "populate": 0}


class exceptions:          # pylint: disable=invalid-name
    class CplexError(Exception):
        pass

    class CplexSolverError(CplexError):
        pass


class callbacks:           # pylint: disable=invalid-name
    class Callback:
        pass


class _Param:
    def __init__(self, root, path):
        self._root, self._path = root, path

    def __getattr__(self, name):
        if name.startswith("_"):
            raise AttributeError(name)
        return _Param(self._root, self._path + (name,))

    def set(self, value):
        self._root[".".join(self._path)] = value

    def get(self):
        return self._root.get(".".join(self._path))


class _Sense:
    minimize = 1
    maximize = -1


class _Objective:
    sense = _Sense

    def __init__(self):
        self._sense = 1

    def set_sense(self, s):
        if s not in (1, -1):
            raise exceptions.CplexError("bad objective sense")
        self._sense = s


class _Variables:
    def __init__(self):
        self.names, self.obj, self.lb, self.ub, self.types = [], [], [], [], []
        self.index = {}

    def add(self, obj=None, lb=None, ub=None, types="", names=None):
        n = len(names)
        if not (len(obj) == n and len(lb) == n and len(ub) == n and len(types) == n):
            raise exceptions.CplexError("variables.add: inconsistent arguments")
        for k in range(n):
            if names[k] in self.index:
                raise exceptions.CplexError(f"variables.add: duplicate name {names[k]}")
            if types[k] != "B":
                raise exceptions.CplexError("stand-in supports binary variables only")
            self.index[names[k]] = len(self.names)
            self.names.append(names[k])
            self.obj.append(float(obj[k]))
            self.lb.append(float(lb[k]))
            self.ub.append(float(ub[k]))
            self.types.append(types[k])
        return range(len(self.names) - n, len(self.names))

    def get_num(self):
        return len(self.names)


class _Constraints:
    def __init__(self, variables):
        self._v = variables
        self.rows, self.senses, self.rhs, self.names = [], [], [], []

    def add(self, lin_expr=None, senses="", rhs=None, names=None):
        n = len(lin_expr)
        if len(senses) != n or len(rhs) != n or (names is not None and len(names) != n):
            raise exceptions.CplexError(f"linear_constraints.add: inconsistent arguments "
                                        f"(rows={n}, senses={len(senses)}, rhs={len(rhs)})")
        for k in range(n):
            ind, val = lin_expr[k]
            if len(ind) != len(val):
                raise exceptions.CplexError("row with different numbers of indices and values")
            idx = []
            for name in ind:
                if isinstance(name, str):
                    if name not in self._v.index:
                        raise exceptions.CplexSolverError(f"CPLEX Error  1210: Name not found: {name}")
                    idx.append(self._v.index[name])
                else:
                    if not 0 <= int(name) < len(self._v.names):
                        raise exceptions.CplexSolverError("CPLEX Error  1201: Column index out of range")
                    idx.append(int(name))
            if len(set(idx)) != len(idx):
                raise exceptions.CplexSolverError("CPLEX Error  1436: duplicate entry in a row")
            if senses[k] not in "ELG":
                raise exceptions.CplexError("bad sense")
            self.rows.append((idx, [float(v) for v in val]))
            self.senses.append(senses[k])
            self.rhs.append(float(rhs[k]))
            self.names.append(names[k] if names is not None else f"r{len(self.names)}")


class _Pool:
    def __init__(self):
        self.solutions = []

    def get_num(self):
        return len(self.solutions)

    def get_values(self, i):
        return list(self.solutions[i])


class _Solution:
    def __init__(self):
        self.values = None
        self.objective = None
        self.pool = _Pool()

    def get_values(self, *args):
        if self.values is None:
            raise exceptions.CplexSolverError("CPLEX Error  1217: No solution exists")
        if args:
            raise exceptions.CplexError("stand-in: get_values() without arguments only")
        return list(self.values)

    def get_objective_value(self):
        return self.objective


class Cplex:
    def __init__(self, *args):
        if args:
            raise exceptions.CplexError("stand-in: Cplex() without arguments only")
        self._params = {}
        self.parameters = _Param(self._params, ())
        self.objective = _Objective()
        self.variables = _Variables()
        self.linear_constraints = _Constraints(self.variables)
        self.solution = _Solution()

    def set_results_stream(self, *_a):
        pass

    set_log_stream = set_warning_stream = set_error_stream = set_results_stream

    # -- solving --------------------------------------------------------------------------------
    def _build(self, extra_rows=()):
        import pulp          # lazily: PuLP imports `cplex` while it is being imported
        v = self.variables
        prob = pulp.LpProblem("standin", pulp.LpMinimize if self.objective._sense == 1 else pulp.LpMaximize)
        xs = [pulp.LpVariable(f"v{i}", 0, 1, cat="Binary") for i in range(len(v.names))]
        for i in range(len(xs)):
            if v.lb[i] > 0:
                xs[i].lowBound = 1 if v.lb[i] >= 1 else 0
            if v.ub[i] < 1:
                xs[i].upBound = 0
        prob += pulp.lpSum(v.obj[i] * xs[i] for i in range(len(xs)))
        c = self.linear_constraints
        for (idx, val), sense, rhs in list(zip(c.rows, c.senses, c.rhs)) + list(extra_rows):
            expr = pulp.lpSum(val[k] * xs[idx[k]] for k in range(len(idx)))
            if sense == "E":
                prob += expr == rhs
            elif sense == "L":
                prob += expr <= rhs
            else:
                prob += expr >= rhs
        return pulp, prob, xs

    def _solve_once(self, extra_rows=()):
        pulp, prob, xs = self._build(extra_rows)
        prob.solve(pulp.PULP_CBC_CMD(msg=False))
        if pulp.LpStatus[prob.status] != "Optimal":
            return None, None
        vals = [float(round(x.value() or 0.0)) for x in xs]
        obj = sum(self.variables.obj[i] * vals[i] for i in range(len(vals)))
        return vals, obj

    def _record(self, kind, sols):
        if len(MODELS) < 200:
            c = self.linear_constraints
            MODELS.append({"names": list(self.variables.names), "obj": list(self.variables.obj),
                           "rows": [(list(i), list(v)) for i, v in c.rows], "senses": "".join(c.senses),
                           "rhs": list(c.rhs), "kind": kind, "solutions": [list(s) for s in sols],
                           "params": dict(self._params)})

    def solve(self):
        SOLVES["solve"] += 1
        vals, obj = self._solve_once()
        if vals is None:
            self.solution.values = None
            self._record("solve", [])
            raise exceptions.CplexSolverError("CPLEX Error  1217: No solution exists (infeasible model)")
        self.solution.values, self.solution.objective = vals, obj
        self._record("solve", [vals])

    def populate_solution_pool(self):
        """every 0-1 solution whose objective is within mip.pool.absgap of the optimum: one CBC solve
        for the optimum, then a depth-first enumeration with activity-bound propagation"""
        SOLVES["populate"] += 1
        gap = self._params.get("mip.pool.absgap")
        gap = 1e-6 if gap is None else float(gap)
        limit = int(self._params.get("mip.limits.populate") or 20)
        if self.objective._sense != 1:
            raise exceptions.CplexError("stand-in: populate supports minimisation only")
        vals, best = self._solve_once()
        sols = []
        if vals is not None:
            sols = enumerate_solutions(self.variables.obj, self.linear_constraints.rows,
                                       self.linear_constraints.senses, self.linear_constraints.rhs,
                                       best + gap, min(limit, 200000))
            if not any(s == vals for s in sols):
                raise exceptions.CplexError("stand-in self-check failed: CBC optimum not found by the enumeration")
        self.solution.pool.solutions = sols
        if sols:
            self.solution.values, self.solution.objective = sols[0], best
        self._record("populate", sols)


def enumerate_solutions(obj, rows, senses, rhs, bound, limit):
    """all x in {0,1}^n with rows satisfied and obj.x <= bound (generic 0-1 ILP reasoning only)"""
    n = len(obj)
    eps = 1e-9
    var_rows = [[] for _ in range(n)]
    for r, (idx, _val) in enumerate(rows):
        for i in idx:
            var_rows[i].append(r)
    # disjoint "exactly one" rows (unit coefficients, E, rhs 1) give a lower bound on the remaining cost
    used = [False] * n
    groups = []
    for r, (idx, val) in enumerate(rows):
        if senses[r] == "E" and rhs[r] == 1 and all(v == 1 for v in val) and not any(used[i] for i in idx):
            groups.append(list(idx))
            for i in idx:
                used[i] = True
    neg_free = [i for i in range(n) if obj[i] < 0]
    x = [-1] * n
    out = []

    def propagate(queue, trail):
        while queue:
            r = queue.pop()
            idx, val = rows[r]
            lo = hi = 0.0
            for i, a in zip(idx, val):
                if x[i] == -1:
                    if a > 0:
                        hi += a
                    else:
                        lo += a
                elif x[i] == 1:
                    lo += a
                    hi += a
            sense = senses[r]
            b = rhs[r]
            if sense in "LE" and lo > b + eps:
                return False
            if sense in "GE" and hi < b - eps:
                return False
            for i, a in zip(idx, val):
                if x[i] != -1 or a == 0:
                    continue
                force = None
                if sense in "LE":
                    # setting x_i to its "large" value must keep lo <= b
                    if a > 0 and lo + a > b + eps:
                        force = 0
                    elif a < 0 and lo - a > b + eps:
                        force = 1
                if force is None and sense in "GE":
                    if a > 0 and hi - a < b - eps:
                        force = 1
                    elif a < 0 and hi + a < b - eps:
                        force = 0
                if force is not None:
                    x[i] = force
                    trail.append(i)
                    queue.extend(var_rows[i])
                    queue.append(r)
                    break
        return True

    def lower_bound():
        c = 0.0
        for i in range(n):
            if x[i] == 1:
                c += obj[i]
        for g in groups:
            if any(x[i] == 1 for i in g):
                continue
            free = [obj[i] for i in g if x[i] == -1]
            if free:
                c += min(free)
        for i in neg_free:
            if x[i] == -1 and not used[i]:
                c += obj[i]
        return c

    def dfs():
        if len(out) >= limit:
            return
        if lower_bound() > bound + eps:
            return
        try:
            i = x.index(-1)
        except ValueError:
            out.append([float(v) for v in x])
            return
        for value in (1, 0):
            trail = [i]
            x[i] = value
            if propagate(list(var_rows[i]), trail):
                dfs()
            for j in trail:
                x[j] = -1

    trail0 = []
    if propagate(list(range(len(rows))), trail0):
        dfs()
    return out
